#!/venv/bin/python
"""Mutation sweep: a broad sensitivity measurement of the checks (not a property check, not in the gating path).

1. generate small textual mutants of the plugin source (comparison / boolean / arithmetic flips, statement
   deletion, constant tweaks), one changed line each, CRLF preserved;
2. keep those for which the pinned suite still passes (the "realistic breakage" class of the brief);
3. run every claimed check against each surviving mutant with a small run budget (VERIF_REPO = scratch copy
   under /tmp, removed afterwards) and record which check reports a violation.

usage: tools/mutation_sweep.py generate OUT.json            (steps 1+2, parallel)
       tools/mutation_sweep.py run OUT.json RESULT.json [N] [runs]   (step 3 on a seeded random sample of N survivors)
"""
from __future__ import annotations

import json
import os
import random
import re
import shutil
import subprocess
import sys
import tempfile
from concurrent.futures import ProcessPoolExecutor

REPO = "/repo"
VERIF = os.path.dirname(os.path.dirname(os.path.abspath(__file__)))
FILES = ["ExcludeRegionState.py", "GcodeHandlers.py", "RetractionState.py", "AxisPosition.py", "Position.py",
         "__init__.py", "StreamProcessor.py", "RectangularRegion.py", "CircularRegion.py", "AtCommandAction.py",
         "CommonMixin.py", "GcodeParser.py", "ExcludedGcode.py"]
PROPS = ["C01", "C02", "C03", "C04", "C05", "C06", "C07", "C08", "C09", "C10", "C11", "C12", "C13", "C14", "C15",
         "C20"]

SUBS = [
    (r">=", ">"), (r"<=", "<"), (r"(?<![<>=!])>(?!=)", ">="), (r"(?<![<>=!])<(?!=)", "<="),
    (r"==", "!="), (r"!=", "=="), (r"\bis not None\b", "is None"), (r"\bis None\b", "is not None"),
    (r"\band\b", "or"), (r"\bor\b", "and"), (r"\bnot ", ""), (r"\bTrue\b", "False"), (r"\bFalse\b", "True"),
    (r" \+ ", " - "), (r" - ", " + "), (r" \* ", " / "), (r" / ", " * "), (r" \+= ", " -= "), (r" -= ", " += "),
    (r"\b0\b", "1"), (r"\b1\b", "0"), (r"\bif \(", "if not ("), (r"\belif \(", "elif not ("),
]


def code_lines(text):
    """(index, line) of lines that are code (not comments / docstrings / blank)."""
    out = []
    in_doc = False
    for i, line in enumerate(text.split("\r\n")):
        st = line.strip()
        if in_doc:
            if '"""' in st:
                in_doc = False
            continue
        if st.startswith('"""') or st.startswith('r"""'):
            if st.count('"""') < 2:
                in_doc = True
            continue
        if not st or st.startswith("#"):
            continue
        out.append((i, line))
    return out


def gen_mutants():
    muts = []
    for fn in FILES:
        path = os.path.join(REPO, "octoprint_excluderegion", fn)
        text = open(path, "rb").read().decode("utf-8")
        for (i, line) in code_lines(text):
            if "_logger." in line or line.strip().startswith(("import ", "from ", "def ", "class ", '"', "'")):
                continue
            code = line.split("#")[0] if '"' not in line else line
            for pat, rep in SUBS:
                for m in re.finditer(pat, code):
                    new = code[:m.start()] + rep + code[m.end():] + line[len(code):]
                    if new != line:
                        muts.append({"file": fn, "line": i, "old": line, "new": new, "op": "%s->%s" % (pat, rep)})
            st = line.strip()
            # statement deletion: simple assignments / calls that are a whole statement on one line
            if re.match(r"^(self\.[\w\.]+ (=|\+=|-=) .*[^\(\[,]|[\w\.]+\([^\(\)]*\))$", st) and not st.endswith(("(", ",")):
                indent = line[:len(line) - len(line.lstrip())]
                muts.append({"file": fn, "line": i, "old": line, "new": indent + "pass", "op": "delete"})
    # de-duplicate
    seen = set()
    out = []
    for m in muts:
        k = (m["file"], m["line"], m["new"])
        if k not in seen:
            seen.add(k)
            out.append(m)
    return out


def make_tree(m):
    d = tempfile.mkdtemp(prefix="verif-ms-", dir="/tmp")
    shutil.copytree(os.path.join(REPO, "octoprint_excluderegion"), os.path.join(d, "octoprint_excluderegion"))
    shutil.copytree(os.path.join(REPO, "test"), os.path.join(d, "test"))
    for f in ("setup.py", "README.md"):
        shutil.copy(os.path.join(REPO, f), d)
    path = os.path.join(d, "octoprint_excluderegion", m["file"])
    lines = open(path, "rb").read().decode("utf-8").split("\r\n")
    idx = m["line"]
    if lines[idx] != m["old"]:      # the tree moved on a few lines since the catalogue was generated
        cands = [j for j in range(max(0, idx - 12), min(len(lines), idx + 13)) if lines[j] == m["old"]]
        if len(cands) != 1:
            shutil.rmtree(d, ignore_errors=True)
            return None
        idx = cands[0]
    lines[idx] = m["new"]
    open(path, "wb").write("\r\n".join(lines).encode("utf-8"))
    return d


def survives(m):
    d = make_tree(m)
    try:
        c = subprocess.run([sys.executable, "-c", "import sys; sys.path.insert(0, %r); import octoprint_excluderegion" % d],
                           capture_output=True, timeout=120)
        if c.returncode != 0:
            return (m, "does-not-import")
        b = subprocess.run([os.path.join(VERIF, "bin", "baseline")], env=dict(os.environ, VERIF_REPO=d),
                           capture_output=True, text=True, timeout=900)
        return (m, "survives" if b.returncode == 0 else "killed-by-suite")
    except Exception as ex:
        return (m, "error:%s" % ex)
    finally:
        shutil.rmtree(d, ignore_errors=True)


def run_checks(args):
    m, runs = args
    d = make_tree(m)
    res = {}
    if d is None:
        return (m, {"skipped": {"exit": -1, "clauses": ["line no longer exists"]}})
    try:
        for p in PROPS:
            c = subprocess.run([os.path.join(VERIF, "bin", "check"), p, "--runs", str(runs), "--workers", "2",
                                "--no-evidence", "--max-report", "1", "--no-selftest"],
                               env=dict(os.environ, VERIF_REPO=d, VERIF_REPLAYS=os.path.join(d, "replays")),
                               capture_output=True, text=True, timeout=3000)
            clauses = [l.split("clause=")[1].split()[0] for l in c.stdout.splitlines() if "clause=" in l]
            res[p] = {"exit": c.returncode, "clauses": clauses}
            if c.returncode == 2:
                res[p]["err"] = [l[:200] for l in c.stdout.splitlines() if l.startswith("HARNESS")][:1]
    finally:
        shutil.rmtree(d, ignore_errors=True)
    return (m, res)


def main():
    cmd = sys.argv[1]
    if cmd == "generate":
        muts = gen_mutants()
        print("candidate mutants:", len(muts))
        out = []
        with ProcessPoolExecutor(max_workers=14) as ex:
            for k, (m, verdict) in enumerate(ex.map(survives, muts, chunksize=4)):
                m["verdict"] = verdict
                out.append(m)
                if k % 100 == 0:
                    print(k, verdict, flush=True)
        json.dump(out, open(sys.argv[2], "w"), indent=0)
        from collections import Counter
        print(Counter(m["verdict"] for m in out))
    elif cmd == "run":
        muts = [m for m in json.load(open(sys.argv[2])) if m["verdict"] == "survives"]
        n = int(sys.argv[4]) if len(sys.argv) > 4 else 100
        runs = int(sys.argv[5]) if len(sys.argv) > 5 else 1200
        random.Random(7).shuffle(muts)
        muts = muts[:n]
        results = []
        if os.path.exists(sys.argv[3]):          # resume
            results = json.load(open(sys.argv[3]))
            done = set((m["file"], m["line"], m["new"]) for m in results)
            muts = [m for m in muts if (m["file"], m["line"], m["new"]) not in done]
            print("resuming: %d done, %d to go" % (len(results), len(muts)), flush=True)
        with ProcessPoolExecutor(max_workers=7) as ex:
            for k, (m, res) in enumerate(ex.map(run_checks, [(m, runs) for m in muts])):
                caught = [p for p, r in res.items() if r["exit"] == 1]
                err = [p for p, r in res.items() if r["exit"] == 2]
                m["caught_by"] = caught
                m["harness_error"] = err
                m["detail"] = res
                results.append(m)
                print(k, m["file"], m["line"] + 1, m["op"], "CAUGHT " + ",".join(caught) if caught else "NOT-CAUGHT",
                      ("ERR " + ",".join(err)) if err else "", flush=True)
                json.dump(results, open(sys.argv[3], "w"), indent=0)


if __name__ == "__main__":
    main()
