#!/venv/bin/python
"""Re-confirm every seeded change and regenerate the records about them (not a property check, not gating).

usage: tools/seeded_records.py run [N-parallel] [runs] [substring]   every seeded/<id>/ (or those whose id contains the
                                                          substring) through bin/mutant-run -> seeded/RESULTS.txt
       tools/seeded_records.py records                   RESULTS.txt -> meta.json "verified", sim/mutants/ catalogue,
                                                          the table between the SEEDED-TABLE markers in DESIGN.md

A change that its owning check does not report is also run against the checks listed in ALSO (the checks that do
report it); MISSED_FIRST are the changes the owning check missed when they arrived (kept from the existing records,
extended by hand per round).
"""
from __future__ import annotations

import glob
import json
import os
import re
import shutil
import subprocess
import sys
from concurrent.futures import ThreadPoolExecutor

VERIF = os.path.dirname(os.path.dirname(os.path.abspath(__file__)))
SEEDED = os.path.join(VERIF, "seeded")

# changes whose trigger lies outside the quantifier of the property they were written for: other checks report them
ALSO = {
    "C05-r2m2": ["C06", "C10"],
    "C02-r5m2": ["C12"],
    "C08-r5m2": ["C14"],
    "C04-r5m1": ["C05"],
    "C04-r6m1": ["C05"],
    "C04-r6m2": ["C20"],
    "C04-r7m1": ["C06"],
    "C04-r7m2": ["C05"],
    "C02-r8m2": ["C14"],
    "C04-r8m1": ["C05"],
    "C08-r8m2": ["C10"],
    "C11-r8m2": ["C10"],
    "C15-r9m1": ["C06"],
}
NOTE = {
    "C05-r2m2": "trigger outside C05's quantifier",
    "C11-r3m2": "needs `send_plugin_message` to raise, which the real plugin manager never lets happen",
    "C02-r5m2": "the region set itself changes through an accepted request - C12's subject; the forwarded stream is "
                "correct for the regions the plugin holds",
    "C08-r5m2": "needs @-commands, which are not tool-path elements of C08's programs",
    "C04-r5m1": "the E coordinate and the pushes of the file's own moves stay right; the synthesised recovery has the "
                "wrong length - C05's subject",
    "C04-r6m1": "the E coordinate stays in step and the file's moves push what they specify; printing resumes while "
                "the filament is still retracted - C05's subject",
    "C04-r6m2": "only the offline path (StreamProcessor) is affected, which C04's live job does not go through - "
                "C20's subject",
    "C04-r7m1": "needs a retraction riding on a move (outside C04's E-only / firmware cycles) and an enter script; the "
                "replayed retraction pair is C06's subject (enter_extra)",
    "C04-r7m2": "the E coordinate is still re-synchronised at the exit; the forgotten recovery (printing resumes "
                "retracted) is C05's subject",
    "C14-r7m2": "needs one @-line that triggers disable and then enable in the middle of an episode: the filter's own "
                "exit travel then re-enters the hook with exclusion on again and is itself excluded, which the "
                "episode tracker does not model (DESIGN section 11); not generated, not caught",
    "C02-r8m2": "needs a settings update that fails half-way (an @-action entry that cannot be constructed); generated "
                "in C14's profile, where it is reported",
    "C04-r8m1": "the E coordinate and the pushes of the file's own moves stay right; the forgotten retraction makes "
                "printing resume retracted - C05's subject",
    "C08-r8m2": "needs the global g90InfluencesExtruder feature switched while the server runs - a history, not an "
                "encoding of the tool path; C10's histories contain it",
    "C11-r8m2": "the lifecycle gate itself is intact; the print starts from a state that is not clean - C10's subject",
    "C10-r8m2": "needs `G28 O` (home only if not homed yet), which is outside the generated dialect: the filter does "
                "not implement the O flag at all, so the reference printer and the filter disagree on it anyway",
    "C15-r8m2": "needs motion into a region between two afterPrintDone invocations of one job (the body of the "
                "user's afterPrintDone script); the end-of-job op repeats the hook without traffic in between",
    "C20-r8m1": "the change shares bound methods between handler instances through a class-level cache; runs stop "
                "being reproducible, the check ends with HARNESS-ERROR (exit 2), not with a VIOLATION line",
}
MISSED_FIRST_NEW = {"C02-r5m1", "C02-r5m2", "C03-r5m2", "C04-r5m1", "C05-r5m1", "C06-r5m1", "C07-r5m1", "C07-r5m2",
                    "C08-r5m2", "C09-r5m2", "C12-r5m1", "C13-r5m1", "C14-r5m1",
                    "C02-r6m1", "C02-r6m2", "C04-r6m1", "C04-r6m2", "C05-r6m2", "C07-r6m2", "C09-r6m2", "C12-r6m2",
                    "C15-r6m2", "C20-r6m1", "C20-r6m2",
                    "C02-r7m1", "C04-r7m1", "C04-r7m2", "C06-r7m2", "C11-r7m1", "C14-r7m2", "C20-r7m1",
                    "C02-r8m2", "C04-r8m1", "C04-r8m2", "C06-r8m2", "C08-r8m2", "C09-r8m2", "C10-r8m1", "C10-r8m2",
                    "C11-r8m2", "C14-r8m1", "C14-r8m2", "C15-r8m2", "C20-r8m1",
                    "C10-r9m1", "C15-r9m1"}


def ids():
    out = [os.path.basename(d) for d in glob.glob(os.path.join(SEEDED, "C*-*")) if os.path.isdir(d)]

    def key(i):
        p, m = i.split("-")
        r = re.match(r"(?:r(\d+))?m(\d+)", m)
        return (p, int(r.group(1) or 1), int(r.group(2)))
    return sorted(out, key=key)


def run_one(args):
    i, runs = args
    prop = i.split("-")[0]
    checks = [prop] + ALSO.get(i, [])
    c = subprocess.run([os.path.join(VERIF, "bin", "mutant-run"), "seeded/%s/patch.diff" % i, "seeded/%s/demo.py" % i,
                        str(runs)] + checks, cwd=VERIF, capture_output=True, text=True, timeout=7200)
    keep = [l[:300] for l in (c.stdout + c.stderr).splitlines()
            if re.match(r"(demo on|baseline:|check |  clause=| \d+ files? changed)", l)]
    return i, "=== seeded/%s\n%s\n" % (i, "\n".join(keep))


def cmd_run(par, runs, only=None):
    todo = [(i, runs) for i in ids() if only is None or any(o in i for o in only.split(","))]
    res = {}
    if only is not None and os.path.exists(os.path.join(SEEDED, "RESULTS.txt")):
        cur = None
        for l in open(os.path.join(SEEDED, "RESULTS.txt")):      # keep the blocks that are not re-run
            if l.startswith("=== seeded/"):
                cur = l.strip().split("/")[1]
                res[cur] = ""
            if cur is not None:
                res[cur] += l
        for i, _ in todo:
            res.pop(i, None)
    with ThreadPoolExecutor(max_workers=par) as ex:
        for k, (i, text) in enumerate(ex.map(run_one, todo)):
            res[i] = text
            print(k, i, "exit=1" in text, flush=True)
            with open(os.path.join(SEEDED, "RESULTS.txt"), "w") as f:
                for j in ids():
                    if j in res:
                        f.write(res[j])


def parse_results():
    out = {}
    cur = None
    for l in open(os.path.join(SEEDED, "RESULTS.txt")):
        l = l.rstrip("\n")
        if l.startswith("=== seeded/"):
            cur = out.setdefault(l.split("/")[1], {"checks": {}, "demo0": None, "demo1": None, "suite": None})
        elif l.startswith("demo on unmodified tree: exit"):
            cur["demo0"] = int(l.split()[-1])
        elif l.startswith("demo on changed tree: exit"):
            cur["demo1"] = int(l.split()[-1])
        elif l.startswith("baseline:"):
            cur["suite"] = l.split("baseline:")[1].strip()
        elif l.startswith("check "):
            m = re.match(r"check (C\d+) exit=(\d+) \d+ violation clause\(s\): (.*)", l)
            cur["checks"][m.group(1)] = {"exit": int(m.group(2)), "clauses": m.group(3).split()}
    return out


def cell(s, n=150):
    return str(s).replace("|", "\\|").replace("\n", " ")[:n]


def cmd_records():
    res = parse_results()
    rows = []
    n_own = 0
    missed_first = 0
    shutil.rmtree(os.path.join(VERIF, "sim", "mutants"), ignore_errors=True)
    os.makedirs(os.path.join(VERIF, "sim", "mutants"))
    for i in ids():
        prop = i.split("-")[0]
        r = res[i]
        assert r["demo0"] == 0 and r["demo1"] == 1 and r["suite"].startswith("416/416"), (i, r)
        mp = os.path.join(SEEDED, i, "meta.json")
        meta = json.load(open(mp))
        was_missed = bool(meta.get("verified", {}).get("missed_by_the_first_version_of_the_check")) \
            or i in MISSED_FIRST_NEW
        own = r["checks"][prop]
        runs = 8000
        meta["verified"] = {
            "how": "bin/mutant-run seeded/%s/patch.diff seeded/%s/demo.py %d %s  (scratch worktree of /repo HEAD under "
                   "/tmp, removed afterwards)" % (i, i, runs, " ".join([prop] + ALSO.get(i, []))),
            "pinned_suite_with_change": r["suite"],
            "demo_exit_unmodified_tree": r["demo0"],
            "demo_exit_changed_tree": r["demo1"],
            "owning_check": prop,
            "owning_check_exit": own["exit"],
            "clauses_reported": own["clauses"],
            "missed_by_the_first_version_of_the_check": was_missed,
        }
        others = {p: v for p, v in r["checks"].items() if p != prop}
        if others:
            meta["verified"]["other_checks"] = others
        if i in NOTE:
            meta["verified"]["note"] = NOTE[i]
        json.dump(meta, open(mp, "w"), indent=1)
        missed_first += was_missed
        if own["exit"] == 1 or (own["exit"] == 2 and own["clauses"]):
            # (exit 2 with clauses: violations were reported and, besides, the changed plugin made the harness's
            # own traffic fail - counted as reported, the record keeps the exit code)
            n_own += 1
            rep = " ".join(own["clauses"]) + (" (missed at first)" if was_missed else "")
            shutil.copy(os.path.join(SEEDED, i, "patch.diff"), os.path.join(VERIF, "sim", "mutants", i + ".patch"))
            json.dump({"expect": [prop], "runs": runs, "origin": "seeded/" + i},
                      open(os.path.join(VERIF, "sim", "mutants", i + ".json"), "w"))
        else:
            oc = [c for p, v in others.items() if v["exit"] == 1 for c in v["clauses"]]
            rep = "**not by %s** (%s)%s" % (prop, NOTE.get(i, "?"), ("; " + " ".join(oc)) if oc else "")
            caught_by = [p for p, v in others.items() if v["exit"] == 1]
            if caught_by:
                shutil.copy(os.path.join(SEEDED, i, "patch.diff"), os.path.join(VERIF, "sim", "mutants", i + ".patch"))
                json.dump({"expect": caught_by, "runs": runs, "origin": "seeded/" + i},
                          open(os.path.join(VERIF, "sim", "mutants", i + ".json"), "w"))
        rows.append("| %s | %s | %s | %s |" % (i, cell(meta["description"]), cell(meta.get("needs", "")), rep))
    table = ["| id | change (from its meta.json) | needs | reported as |", "|---|---|---|---|"] + rows
    dp = os.path.join(VERIF, "DESIGN.md")
    text = open(dp).read()
    a, b = "<!-- SEEDED-TABLE-BEGIN -->", "<!-- SEEDED-TABLE-END -->"
    assert a in text and b in text
    text = text[:text.index(a) + len(a)] + "\n" + "\n".join(table) + "\n" + text[text.index(b):]
    open(dp, "w").write(text)
    print("changes: %d; reported by the owning check: %d; missed at first: %d" % (len(rows), n_own, missed_first))
    per_round = {}
    for i in ids():
        m = re.match(r"C\d+-(?:r(\d+))?m", i)
        rd = int(m.group(1) or 1)
        meta = json.load(open(os.path.join(SEEDED, i, "meta.json")))
        per_round.setdefault(rd, [0, 0])
        per_round[rd][0] += 1
        per_round[rd][1] += meta["verified"]["missed_by_the_first_version_of_the_check"]
    print("per round (changes, missed at first):", per_round)


if __name__ == "__main__":
    if sys.argv[1] == "run":
        cmd_run(int(sys.argv[2]) if len(sys.argv) > 2 else 4, int(sys.argv[3]) if len(sys.argv) > 3 else 8000,
                sys.argv[4] if len(sys.argv) > 4 else None)
    elif sys.argv[1] == "records":
        cmd_records()
