"""RefPrinter -- an independent, Marlin-1.1.x-style interpreter of the wire stream (oracle side).

Shares no code with the plugin.  Two instances per run: U executes the *input* stream (what the unfiltered
file would do), F executes the *forwarded* stream (what the printer really gets).

Conventions (Marlin): logical = native + position_shift + home_offset, all internal values in mm.
"""
from __future__ import annotations

import math
import re

# Marlin 1.1.x is case sensitive: only upper-case code letters and parameter letters count.
_CODE = re.compile(r"\s*(?:N\d+\s*)?([GMT])\s*(\d+)(?:\.(\d+))?")
_NUM = re.compile(r"[-+]?(?:\d+\.?\d*|\.\d+)")


def strip_comment(line):
    i = line.find(";")
    return line if i < 0 else line[:i]


def marlin_words(cmd):
    """(code, subcode, {letter: value-or-None}) with Marlin number semantics.

    A value ends at 'E'/'e' (Marlin cuts the string there before strtod), so `X1.5e-07` reads as X=1.5:
    exactly the hazard C07 is about.  Lower-case letters are not parameters.  First occurrence wins.
    """
    cmd = strip_comment(cmd)
    star = cmd.find("*")
    if star >= 0:
        cmd = cmd[:star]
    m = _CODE.match(cmd)
    if not m:
        return None, None, {}
    code = m.group(1) + str(int(m.group(2)))
    sub = m.group(3)
    rest = cmd[m.end():]
    words = {}
    i = 0
    n = len(rest)
    while i < n:
        c = rest[i]
        if "A" <= c <= "Z":
            j = i + 1
            while j < n and rest[j] == " ":
                j += 1
            mm = _NUM.match(rest, j)
            if mm:
                val = float(mm.group(0))
                i = mm.end()
                # anything glued to the number up to the next blank is not re-read as a value
                # (e.g. the "e-07" tail); an upper-case letter in it still starts a new word.
                if c not in words:
                    words[c] = val
                while i < n and rest[i] != " " and not ("A" <= rest[i] <= "Z"):
                    i += 1
                continue
            if c not in words:
                words[c] = None
            i += 1
        else:
            i += 1
    return code, sub, words


# --- strict reader for synthesised commands (C07) ------------------------------------------------------
_STRICT = re.compile(r"^([GM])(\d+)(?:\.(\d+))?((?: +[A-Z] ?[-+]?(?:\d+\.?\d*|\.\d+))*) *$")
_STRICT_WORD = re.compile(r" +([A-Z]) ?([-+]?(?:\d+\.?\d*|\.\d+))")


def strict_problems(cmd):
    """Problems that make `cmd` something other than: one G/M code followed by distinct letters with
    finite plain-decimal numbers, read identically by a firmware-style reader and by float()."""
    probs = []
    if not isinstance(cmd, str):
        return ["not a string: %r" % (cmd,)]
    m = _STRICT.match(cmd)
    if not m:
        low = cmd.lower()
        if "inf" in low or "nan" in low:
            probs.append("non-finite number")
        elif re.search(r"\d[eE][-+]?\d", cmd):
            probs.append("exponent notation")
        else:
            probs.append("not <code> <letter><decimal>...")
        return probs
    seen = set()
    code, sub, mw = marlin_words(cmd)
    for wm in _STRICT_WORD.finditer(m.group(4)):
        letter, tok = wm.group(1), wm.group(2)
        if letter in seen:
            probs.append("repeated letter %s" % letter)
        seen.add(letter)
        v = float(tok)
        if math.isinf(v) or math.isnan(v):
            probs.append("non-finite %s" % letter)
        if mw.get(letter) != v:
            probs.append("firmware reads %s=%r, text says %r" % (letter, mw.get(letter), v))
    return probs


class RefPrinter(object):
    FW_LEN = 0.8  # firmware retraction length in mm (fixed; Z-lift 0 as in Marlin's defaults)

    def __init__(self, g90_influences_e=False):
        self.g90e = bool(g90_influences_e)
        self.pos = [None, None, None]     # native mm; None = never homed
        self.exact = [False, False, False]  # native value is bit-identical to a number written in a command
        self.shift = [0.0, 0.0, 0.0]      # G92
        self.home_off = [0.0, 0.0, 0.0]   # M206
        self.abs_xyz = True
        self.abs_e = True
        self.unit = 1.0
        self.feed = 0.0                   # mm/min
        self.E = 0.0                      # logical E (mm)
        self.p = 0.0                      # physical filament coordinate (signed cumulative mm pushed)
        self.hw = 0.0                     # high-water mark of p
        self.fwret = False
        self.clock = 0.0                  # seconds of motion / dwell
        self.last_arc = None              # (start_xy, centre_xy, end_xy, clockwise) of the last executed arc
        self.errors = 0

    # -- helpers ----------------------------------------------------------------------------------
    def homed(self):
        return None not in self.pos

    def depth(self):
        return self.hw - self.p

    def logical(self, i):
        return (self.pos[i] + self.shift[i] + self.home_off[i]) / self.unit

    def snap(self):
        return (tuple(self.pos), self.abs_xyz, self.abs_e, self.unit, self.E, self.p, self.hw, self.fwret)

    def _push(self, d):
        self.p += d
        if self.p > self.hw:
            self.hw = self.p

    def _dest(self, w):
        d = list(self.pos)
        ex = list(self.exact)
        for i, l in enumerate("XYZ"):
            v = w.get(l)
            if l in w and v is None:
                v = 0.0  # Marlin: a bare axis letter reads as 0
            if l in w:
                base = self.pos[i] if self.pos[i] is not None else 0.0
                if self.abs_xyz:
                    d[i] = v * self.unit - self.shift[i] - self.home_off[i]
                    ex[i] = (self.unit == 1.0 and self.shift[i] == 0.0 and self.home_off[i] == 0.0)
                else:
                    d[i] = base + v * self.unit
                    ex[i] = False
        return d, ex

    def _move_common(self, w, d, ex, path_len=None):
        old = self.pos
        if "E" in w:
            v = (w["E"] or 0.0) * self.unit
            ne = v if self.abs_e else self.E + v
            self._push(ne - self.E)
            self.E = ne
        if w.get("F") is not None and w["F"] > 0:
            self.feed = w["F"] * self.unit
        if path_len is None:
            if None in old or None in d:
                path_len = 0.0
            else:
                path_len = math.dist(old, d)      # (no OverflowError for absurd coordinates, unlike ** 2)
        if self.feed > 0:
            self.clock += path_len / self.feed * 60.0
        self.pos = d
        self.exact = ex

    # -- interpreter ------------------------------------------------------------------------------
    def run(self, cmd):
        """Execute one command. Returns (snapshot_before, code)."""
        before = self.snap()
        code, sub, w = marlin_words(cmd)
        self.last_arc = None
        if code in ("G0", "G1"):
            d, ex = self._dest(w)
            self._move_common(w, d, ex)
        elif code in ("G2", "G3"):
            self._arc(code == "G2", w)
        elif code == "G4":
            if w.get("S") is not None:
                self.clock += w["S"]
            elif w.get("P") is not None:
                self.clock += w["P"] / 1000.0
        elif code == "G10":
            if "P" not in w and "L" not in w:
                if not self.fwret:
                    self.fwret = True
                    self._push(-self.FW_LEN)
        elif code == "G11":
            if self.fwret:
                self.fwret = False
                self._push(self.FW_LEN)
        elif code == "G20":
            self.unit = 25.4
        elif code == "G21":
            self.unit = 1.0
        elif code == "G28":
            axes = [i for i, l in enumerate("XYZ") if l in w] or [0, 1, 2]
            for i in axes:
                self.pos[i] = 0.0
                self.shift[i] = 0.0
                self.exact[i] = True
        elif code == "G90":
            self.abs_xyz = True
            if self.g90e:
                self.abs_e = True
        elif code == "G91":
            self.abs_xyz = False
            if self.g90e:
                self.abs_e = False
        elif code == "G92":
            for i, l in enumerate("XYZ"):
                v = w.get(l)
                if v is not None and self.pos[i] is not None:
                    # new logical := v
                    self.shift[i] = v * self.unit - self.pos[i] - self.home_off[i]
            if w.get("E") is not None:
                self.E = w["E"] * self.unit
        elif code == "M82":
            self.abs_e = True
        elif code == "M83":
            self.abs_e = False
        elif code == "M206":
            for i, l in enumerate("XYZ"):
                v = w.get(l)
                if v is not None:
                    self.home_off[i] = v * self.unit
        return before, code

    def _arc(self, clockwise, w):
        if None in self.pos:
            self.errors += 1
            return
        d, ex = self._dest(w)
        i = (w.get("I") or 0.0) * self.unit
        j = (w.get("J") or 0.0) * self.unit
        r = w.get("R")
        if r is not None:
            # Marlin plan_arc radius form
            r *= self.unit
            p1, q1 = self.pos[0], self.pos[1]
            p2, q2 = d[0], d[1]
            if r and (p1 != p2 or q1 != q2):
                e = -1.0 if (clockwise ^ (r < 0)) else 1.0
                dx, dy = p2 - p1, q2 - q1
                dist = math.hypot(dx, dy)
                half = dist / 2.0
                if abs(r) >= half:
                    h = math.sqrt(r * r - half * half)
                    mx, my = (p1 + p2) / 2.0, (q1 + q2) / 2.0
                    sx, sy = -dy / dist, dx / dist
                    cx, cy = mx + e * h * sx, my + e * h * sy
                    i, j = cx - p1, cy - q1
                else:
                    i = j = 0.0
            else:
                i = j = 0.0
        if not (i or j):
            self.errors += 1
            return
        sx, sy = self.pos[0], self.pos[1]
        cx, cy = sx + i, sy + j
        radius = math.hypot(i, j)
        rtx, rty = d[0] - cx, d[1] - cy
        ang = math.atan2(-i * rty + j * rtx, -i * rtx - j * rty)
        if ang < 0:
            ang += 2 * math.pi
        if clockwise:
            ang -= 2 * math.pi
        if ang == 0 and sx == d[0] and sy == d[1]:
            ang = 2 * math.pi if not clockwise else -2 * math.pi
        self.last_arc = ((sx, sy), (cx, cy), (d[0], d[1]), clockwise, ang, radius)
        length = math.hypot(abs(ang) * radius, (d[2] - self.pos[2]))
        ex = [False, False, ex[2]] if not (ex[0] and ex[1]) else ex
        self._move_common(w, d, ex, path_len=length)


def arc_points(arc, step=0.02, max_pts=20000):
    """Points on the *true* arc (start .. end) with spacing <= step (mm) (capped by max_pts)."""
    (sx, sy), (cx, cy), (ex_, ey_), cw, ang, radius = arc
    n = int(math.ceil(abs(ang) * radius / step))
    n = max(8, min(n, max_pts))
    a0 = math.atan2(sy - cy, sx - cx)
    pts = []
    for k in range(n + 1):
        a = a0 + ang * k / n
        pts.append((cx + radius * math.cos(a), cy + radius * math.sin(a), abs(ang) * radius * k / n))
    spacing = abs(ang) * radius / n
    # the firmware finishes on the commanded target, which rounding may have put slightly off the circle
    mismatch = math.hypot(pts[-1][0] - ex_, pts[-1][1] - ey_)
    pts.append((ex_, ey_, abs(ang) * radius))
    return pts, spacing + 2.0 * mismatch
