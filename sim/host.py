"""Stub of the OctoPrint host around the plugin: comm layer (`MachineCom` ordering rules transcribed from
octoprint 1.11.8 util/comm.py) and event bus.  The real helper functions of the host are used where the
plugin's results flow through them."""
from __future__ import annotations

from collections import deque

from . import seams  # noqa: F401  (must be first: sets up sys.path / settings)
from octoprint.util.comm import (  # noqa: E402
    _normalize_command_handler_result,
    gcode_and_subcode_for_cmd,
    process_gcode_line,
)


class HookCall(object):
    """Record of one pass of one command through the queuing hook (= one 'input command')."""
    __slots__ = ("src", "cmd", "gcode", "subcode", "raw", "exc", "wire", "sent", "at_exc")

    def __init__(self, src, cmd, gcode, subcode):
        self.src = src          # file | script | terminal | plugin
        self.cmd = cmd
        self.gcode = gcode
        self.subcode = subcode
        self.raw = None         # raw hook return value
        self.exc = None         # exception text if the gcode hook raised (host logs it and sends cmd as-is)
        self.wire = []          # commands that reach the send queue for this input, in order
        self.sent = []          # commands the plugin pushed through commInstance.sendCommand meanwhile
        self.at_exc = None


class SimComm(object):
    """What the plugin sees as `commInstance`, plus the sender side of MachineCom.

    sendCommand(): part_of_job -> job queue; while printing -> command queue; else straight into
    _sendCommand (comm.py 1279ff).  _sendCommand(): queuing hook -> normalise -> per entry: '@' lines go
    through the atcommand phase, then the entry is enqueued for sending (comm.py 4509ff).  A raising hook
    is logged by the host and the command continues unchanged (comm.py 4877ff).
    """

    def __init__(self, plugin, on_call=None):
        self.plugin = plugin
        self.printing = False
        self.streaming = False
        self.command_queue = deque()
        self.job_queue = deque()
        self.wire = []
        self.calls = []
        self.on_call = on_call      # callback(HookCall) after each pass, before the next one
        self.before_call = None     # callback(HookCall) just before the hook is invoked
        self._current = None
        self.depth = 0

    # --- the part of the MachineCom API the plugin uses ---------------------------------------------
    def isStreaming(self):
        return self.streaming

    def sendCommand(self, cmd, cmd_type=None, part_of_job=False, processed=False, force=False,
                    on_sent=None, tags=None, src=None):
        origin = src
        if origin is None:
            origin = "plugin"   # only the plugin calls without src
            if self._current is not None:
                self._current.sent.append(cmd)
        if not processed:
            cmd = process_gcode_line(cmd)
            if not cmd:
                return False
        if part_of_job:
            self.job_queue.append((cmd, origin))
            return True
        if self.printing:
            self.command_queue.append((cmd, origin))
            return True
        return self._sendCommand(cmd, origin)

    # --- sender side ------------------------------------------------------------------------------------
    def _sendCommand(self, cmd, src):
        gcode, subcode = gcode_and_subcode_for_cmd(cmd)
        call = HookCall(src, cmd, gcode, subcode)
        outer = self._current
        self._current = call
        self.depth += 1
        if self.before_call is not None:
            self.before_call(call)
        try:
            if not self.streaming:
                try:
                    call.raw = self.plugin.handleGcodeQueuing(
                        self, "queuing", cmd, None, gcode, subcode=subcode, tags=self._tags_for(src))
                    results = _normalize_command_handler_result(
                        cmd, None, gcode, subcode, set(), call.raw,
                        tags_to_add={"source:rewrite", "phase:queuing", "plugin:excluderegion"})
                except Exception as ex:  # host: logs, keeps the command
                    call.exc = "%s: %s" % (type(ex).__name__, ex)
                    results = [(cmd, None, gcode, subcode, set())]
            else:
                results = [(cmd, None, gcode, subcode, set())]
            for (c, _t, g, _s, _tags) in results:
                if c is None:
                    continue
                if g is None and c.startswith("@"):
                    self._atcommand(c, call)
                call.wire.append(c)
                self.wire.append(c)
        finally:
            self.depth -= 1
            self._current = outer
        self.calls.append(call)
        if self.on_call is not None:
            self.on_call(call)
        return bool(call.wire)

    def _tags_for(self, src):
        """The tags OctoPrint attaches to a command of that origin."""
        if src == "file":
            self.fileline = getattr(self, "fileline", 0) + 1
            return {"source:file", "filepos:%d" % (self.fileline * 24), "fileline:%d" % self.fileline}
        if src == "script" or (src == "plugin" and getattr(self, "in_script", None)):
            return {"source:script", "script:%s" % (getattr(self, "in_script", None) or "afterPrintDone")}
        if src == "terminal":
            return {"source:api", "trigger:printer.commands"}
        if src == "plugin":
            return {"source:plugin", "plugin:excluderegion"}
        return {"source:%s" % src}

    def _atcommand(self, command, call):
        if self.streaming and self.printing:
            return
        split = command.split(None, 1)
        atcommand = split[0][1:]
        parameters = split[1] if len(split) == 2 else ""
        try:
            self.plugin.handleAtCommandQueuing(self, "queuing", atcommand, parameters, tags=set())
        except Exception as ex:
            call.at_exc = "%s: %s" % (type(ex).__name__, ex)

    def pump(self):
        """Drain command queue, then job queue (comm.py _continue_sending order)."""
        n = 0
        while self.command_queue or self.job_queue:
            if self.command_queue:
                cmd, src = self.command_queue.popleft()
            else:
                cmd, src = self.job_queue.popleft()
            self._sendCommand(cmd, src)
            n += 1
            if n > 10000:
                raise RuntimeError("pump does not terminate")
        return n

    def send_file_line(self, line, src="file"):
        """One line of the job: queues first, then the line (if it survives process_gcode_line)."""
        self.pump()
        cmd = process_gcode_line(line)
        if not cmd:
            return None
        self._sendCommand(cmd, src)
        return cmd

    def script(self, name, template_lines=(), part_of_job=True):
        """_getGcodeScript + sendGcodeScript for one script name: hook prefix + template + suffix."""
        prefix, suffix = [], []
        retval = None
        exc = None
        try:
            retval = self.plugin.handleScriptHook(self, "gcode", name)
        except Exception as ex:
            exc = "%s: %s" % (type(ex).__name__, ex)
        if retval is not None and isinstance(retval, (list, tuple)) and len(retval) in (2, 3, 4):
            def to_list(data):
                if isinstance(data, str):
                    data = [s.strip() for s in data.split("\n")]
                if isinstance(data, (list, tuple)):
                    return list(data)
                return None
            p, s = to_list(retval[0]), to_list(retval[1])
            if p:
                prefix = p
            if s:
                suffix = s
        lines = []
        for origin, seq in (("plugin", prefix), ("script", list(template_lines)), ("plugin", suffix)):
            for ln in seq:
                pl = process_gcode_line(ln) if isinstance(ln, str) else None
                if pl is not None and pl.strip() != "":
                    lines.append((pl, origin))
        for pl, origin in lines:
            self.sendCommand(pl, part_of_job=part_of_job, src=origin)
        return retval, exc, [l for l, _ in lines]


class SimBus(object):
    """Event bus: FIFO queue; delivery is a scheduler step."""

    def __init__(self, plugin, on_deliver=None):
        self.plugin = plugin
        self.queue = deque()
        self.delivered = []
        self.on_deliver = on_deliver
        self.stats = {"fired": 0, "delivered": 0, "dup": 0, "drop": 0, "reorder": 0}

    def fire(self, event, payload=None):
        self.queue.append((event, payload or {}))
        self.stats["fired"] += 1

    def deliver(self, n=1):
        k = 0
        while self.queue and k < n:
            ev, payload = self.queue.popleft()
            self._deliver(ev, payload)
            k += 1
        return k

    def deliver_all(self):
        return self.deliver(len(self.queue))

    def _deliver(self, ev, payload):
        exc = None
        try:
            self.plugin.on_event(ev, payload)
        except Exception as ex:
            exc = "%s: %s" % (type(ex).__name__, ex)
        self.delivered.append(ev)
        self.stats["delivered"] += 1
        if self.on_deliver is not None:
            self.on_deliver(ev, exc)

    # adversarial operations
    def dup_head(self):
        if self.queue:
            self.queue.appendleft(self.queue[0])
            self.stats["dup"] += 1

    def drop_head(self):
        if self.queue:
            self.queue.popleft()
            self.stats["drop"] += 1

    def swap_head(self):
        if len(self.queue) >= 2:
            a = self.queue.popleft()
            b = self.queue.popleft()
            self.queue.appendleft(a)
            self.queue.appendleft(b)
            self.stats["reorder"] += 1
