"""Property checks: for each claimed property, how a case is generated from a PRNG and how it is executed."""
from __future__ import annotations

from collections import Counter

from .engine import register
from . import gen
from .worlds.printworld import PrintWorld


class PrintCheck(object):
    """A property decided in the PRINT world with its own generation profile."""
    world = "PRINT"

    def __init__(self, prop, tune, rule):
        self.prop = prop
        self.tune = tune
        self.rule = rule

    def generate(self, rng):
        k = gen.knobs(rng, self.prop)
        self.tune(rng, k)
        return gen.gen_print_schedule(rng, self.prop, k)

    def execute(self, cfg, schedule):
        w = PrintWorld(cfg, {self.prop})
        v = w.run(schedule)
        inter = "".join(_ACTOR.get(op["op"], "s") for op in schedule)
        return {"violation": v, "digest": w.digest(), "stats": w.stats, "abs_states": w.abs_states,
                "ncalls": w.call_index + 1, "sim_time": w.U.clock, "interleaving": hash_str(inter)}


_ACTOR = {"api": "A", "api_get": "A", "event": "B", "deliver": "B", "bus": "B", "settings": "S", "terminal": "T",
          "clock": "C", "logfail": "L", "pause": "P", "resume": "P", "print_start": "J", "print_done": "J",
          "abort": "X", "script_hook": "H", "pump": "p", "sd_stream": "D"}


def hash_str(s):
    import hashlib
    return hashlib.sha1(s.encode()).hexdigest()[:16]


# --- profile tuning -----------------------------------------------------------------------------------------
def tune_c01(rng, k):
    k["w"]["region_add"] = max(k["w"]["region_add"], 3)
    k["nregions"] = rng.choice([1, 1, 2, 3])
    if rng.random() < 0.15:
        k["rel_arcs"] = True   # relative-mode arcs: sub-campaign, attributable by the flag in cfg


def tune_c02(rng, k):
    k["clear_path"] = True
    k["clear_margin"] = 0.05
    mode = rng.choice(["clear", "clear", "noregions", "disabled"])
    k["c02_mode"] = mode
    if mode == "noregions":
        k["nregions"] = 0
        k["w"]["region_add"] = 0
        k["w"]["region_grow"] = 0
    k["w"]["g92xyz"] = 0
    k["w"]["region_shrink"] = 0
    k["p_abort"] = 0.1


def tune_c03(rng, k):
    k["nregions"] = rng.choice([1, 1, 2, 3])
    if rng.random() < 0.5:
        k["w"]["mode"] = 2.5
    if rng.random() < 0.4:
        k["w"]["units"] = 2
    if rng.random() < 0.08:
        k["w"]["g92xyz"] = 1.5   # sub-campaign: G92 X/Y/Z re-basing (see known_findings.json, KF-G92XYZ)
    k["axes_w"] = [45, 10, 10, 25, 10]
    k["p_extrude_z"] = 0.3
    k["w"]["at_noop"] = 0
    if rng.random() < 0.12:
        k["rel_arcs"] = True


def tune_c04(rng, k):
    k["nregions"] = rng.choice([1, 1, 2, 3])
    k["retract"] = rng.choice(["e", "e", "fw"])
    k["w"]["retract"] = rng.choice([10, 20, 30])
    k["w"]["g92e"] = 3
    k["w"]["mode"] = 0 if k["g90e"] else k["w"]["mode"]
    k["prints"] = 1
    k["p_abort"] = 0.0
    k["w"]["region_add"] = 4
    k["may_shrink"] = rng.random() < 0.5
    k["w"]["region_shrink"] = 2


tune_c05 = tune_c04


def tune_c07(rng, k):
    tune_c03(rng, k)
    k["w"]["units"] = 3
    k["w"]["mode"] = 3
    k["tiny_e"] = 0.3
    k["nops"] = rng.choice([30, 60, 120, 250, 400])
    k["retract"] = rng.choice(["e", "e", "fw"])


RULE_STATE = ("distinct (abstract filter state, op kind) pairs reached, abstract state = (print active, "
              "exclusion enabled, excluding, retraction none/E/FW x recovery owed x combinable, deferred "
              "commands pending, XYZ mode, units, number of regions 0/1/2+, command source, command class)")

register(PrintCheck("C01", tune_c01, "reference printer F executes every forwarded command: no XY motion "
                    "into a currently defined region while enabled, no XYZ motion / filament advance while "
                    "the input-stream episode tracker says an episode is open, opening move not forwarded"))
register(PrintCheck("C02", tune_c02, "clear-path programs: every input command's hook result normalises to "
                    "exactly [command]; nothing is sent through the comm object; script hook contributes "
                    "nothing"))
register(PrintCheck("C03", tune_c03, "after every input move ending outside all regions: printer F == "
                    "unfiltered printer U in X,Y,Z (1e-6 mm), positioning mode and units; synthesised XY "
                    "travel happens at max(previous Z, target Z)"))
register(PrintCheck("C04", tune_c04, "outside episodes: logical E of F == U after every input command; "
                    "verbatim forwarded E-commands push the same filament on F as on U; no filament advance "
                    "during an episode"))
register(PrintCheck("C05", tune_c05, "retraction-depth ledger d = highwater(p) - p on both printers: "
                    "d_F <= max d_U so far, d_F >= d_U, d_F == d_U before every extruding XY move, synthesised "
                    "commands never raise the high-water mark, G10/G11 parity and parameters preserved"))
register(PrintCheck("C07", tune_c07, "every synthesised G0/G1/G10/G11/G92/merged command passes a strict "
                    "RS274 plain-decimal reader and reads identically with Marlin number semantics"))
