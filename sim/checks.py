"""Property checks: for each claimed property, how a case is generated from a PRNG and how it is executed."""
from __future__ import annotations

from collections import Counter

from .engine import register
from . import gen
from .worlds.printworld import PrintWorld


class PrintCheck(object):
    """A property decided in the PRINT world with its own generation profile."""
    world = "PRINT"

    RUNS = {"C01": (16000, 600000), "C02": (24000, 900000), "C03": (20000, 700000), "C04": (30000, 1000000),
            "C05": (30000, 1000000), "C06": (30000, 1000000), "C07": (5000, 150000), "C14": (20000, 700000),
            "C15": (30000, 1000000)}

    def __init__(self, prop, tune, rule):
        self.prop = prop
        self.tune = tune
        self.rule = rule
        self.runs = self.RUNS[prop]

    def generate(self, rng):
        k = gen.knobs(rng, self.prop)
        self.tune(rng, k)
        return gen.gen_print_schedule(rng, self.prop, k)

    def execute(self, cfg, schedule):
        w = PrintWorld(cfg, {self.prop})
        v = w.run(schedule)
        inter = "".join(_ACTOR.get(op["op"], "s") for op in schedule)
        return {"violation": v, "digest": w.digest(), "stats": w.stats, "abs_states": w.abs_states,
                "ncalls": w.call_index + 1, "sim_time": w.U.clock, "interleaving": hash_str(inter)}


_ACTOR = {"api": "A", "api_get": "A", "event": "B", "deliver": "B", "bus": "B", "settings": "S", "terminal": "T",
          "clock": "C", "logfail": "L", "pause": "P", "resume": "P", "print_start": "J", "print_done": "J",
          "abort": "X", "script_hook": "H", "pump": "p", "sd_stream": "D"}


def hash_str(s):
    import hashlib
    return hashlib.sha1(s.encode()).hexdigest()[:16]


# --- profile tuning -----------------------------------------------------------------------------------------
def tune_c01(rng, k):
    k["w"]["region_add"] = max(k["w"]["region_add"], 3)
    k["nregions"] = rng.choice([1, 1, 2, 3])
    if rng.random() < 0.4:
        k["w"]["at_switch"] = 1.5          # the dialect of C01 includes @-commands
        k["after_enable_moves"] = True
    if rng.random() < 0.35:
        k["settings"] = {"enteringExcludedRegionGcode": gen.rand_script(rng, "ENTER"),
                         "exitingExcludedRegionGcode": gen.rand_script(rng, "EXIT")}
    k["silent_abort"] = rng.random() < 0.3
    if rng.random() < 0.4:
        k["wipe"] = 0.3
    if rng.random() < 0.3:
        k["double_retract"] = 0.3


def tune_c02(rng, k):
    k["clear_path"] = True
    k["clear_margin"] = 0.05
    mode = rng.choice(["clear", "clear", "noregions", "disabled"])
    k["c02_mode"] = mode
    if mode == "noregions":
        k["nregions"] = 0
        k["w"]["region_add"] = 0
        k["w"]["region_grow"] = 0
    k["w"]["g92xyz"] = 0
    k["w"]["region_shrink"] = 0
    k["p_abort"] = 0.1
    if rng.random() < 0.3:
        k["double_retract"] = 0.3
    if rng.random() < 0.35:
        k["w"]["upload"] = 4            # an upload is filtered offline while the print goes on
    k["silent_abort"] = rng.random() < 0.3
    if mode == "clear" and rng.random() < 0.3:
        # earlier jobs of the run are ordinary (episodes, aborts, restarts without an end event) and are not
        # judged; the last job keeps clear of what is left of the regions and must come out verbatim
        k["dirty_first"] = True
        k["prints"] = rng.choice([2, 2, 3])
        k["p_abort"] = 0.5
        if rng.random() < 0.35:
            # regions are cleared when a job ends (however it ends): the judged job has nothing to avoid
            k["clear_after"] = True
            k["settings"] = dict(k.get("settings") or {}, clearRegionsAfterPrintFinishes=True)
    if mode == "disabled" and rng.random() < 0.3:
        k["settings"] = dict(k.get("settings") or {}, atCommandActions=list(gen.INTERLEAVED_AT))
    if mode == "clear" and rng.random() < 0.5:
        # disable ... enable brackets inside a clear-path program: still nothing may be altered, but the
        # decisions after re-enabling depend on the position tracked while exclusion was off
        k["w"]["at_switch"] = rng.choice([2, 5])
        k["after_enable_moves"] = True
        k["axes_w"] = [40, 20, 20, 10, 10]


def tune_c03(rng, k):
    k["nregions"] = rng.choice([1, 1, 2, 3])
    if rng.random() < 0.5:
        k["w"]["mode"] = 2.5
    if rng.random() < 0.4:
        k["w"]["units"] = 2
    if rng.random() < 0.08:
        k["w"]["g92xyz"] = 1.5   # sub-campaign: G92 X/Y/Z re-basing (see known_findings.json, KF-G92XYZ)
    k["axes_w"] = [45, 10, 10, 25, 10]
    k["p_extrude_z"] = 0.3
    k["w"]["at_noop"] = 0
    if rng.random() < 0.3:
        k["w"]["at_switch"] = 1.5
        k["after_enable_moves"] = True
    if rng.random() < 0.3:
        k["w"]["rehome"] = 1.0
    if rng.random() < 0.3:
        k["settings"] = {"enteringExcludedRegionGcode": gen.rand_script(rng, "ENTER"),
                         "exitingExcludedRegionGcode": gen.rand_script(rng, "EXIT")}
    if rng.random() < 0.3:
        k["wipe"] = 0.3
    if rng.random() < 0.3:
        k["double_retract"] = 0.3


def tune_c04(rng, k):
    k["nregions"] = rng.choice([1, 1, 2, 3])
    k["retract"] = rng.choice(["e", "e", "fw"])
    k["w"]["retract"] = rng.choice([10, 20, 30])
    k["w"]["g92e"] = 3
    k["w"]["mode"] = 0 if k["g90e"] else k["w"]["mode"]
    k["prints"] = 1
    k["p_abort"] = 0.0
    k["w"]["region_add"] = 4
    k["may_shrink"] = rng.random() < 0.5
    k["w"]["region_shrink"] = 2
    if rng.random() < 0.25:
        k["tiny_e"] = 0.3
        k["w"]["g92e"] = 6
    if rng.random() < 0.3:
        k["w"]["rehome"] = 1.5       # G28 (full or partial) in the middle of the job, outside episodes
    if rng.random() < 0.25:
        k["w"]["at_switch"] = 2      # exclusion switched off and on in the middle of retract cycles
    if rng.random() < 0.3:
        k["w"]["units"] = 5          # unit switches in the middle of retract cycles
    if rng.random() < 0.3:
        k["p_terminal_g92e"] = 0.5   # G92 E typed into the terminal while the job runs


tune_c05 = tune_c04


def tune_c07(rng, k):
    tune_c03(rng, k)
    k["w"]["units"] = 3
    k["w"]["mode"] = 3
    k["tiny_e"] = 0.3
    k["tiny_z"] = 0.4
    k["huge"] = rng.choice([0, 0, 0.02])
    k["w"]["g92e"] = rng.choice([2, 6, 10])
    k["w"]["other"] = 10
    k["p_special"] = 0.2
    k["axes_w"] = [35, 12, 12, 21, 20]
    k["nops"] = rng.choice([30, 60, 120, 250, 400])
    k["retract"] = rng.choice(["e", "e", "fw"])


def tune_c06(rng, k):
    k["nregions"] = rng.choice([1, 2, 3])
    conf = gen.rand_deferral_config(rng)
    k["settings"] = {"extendedExcludeGcodes": conf,
                     "enteringExcludedRegionGcode": gen.rand_script(rng, "ENTER"),
                     "exitingExcludedRegionGcode": gen.rand_script(rng, "EXIT")}
    if rng.random() < 0.2:
        del k["settings"]["extendedExcludeGcodes"]          # plugin defaults
        conf = [{"gcode": g} for g in ("G4", "M204", "M205", "M117", "M73")]
    k["configured"] = [e["gcode"] for e in conf]
    k["w"]["other"] = 30
    k["w"]["settings_change"] = 1.5
    k["w"]["at_switch"] = 2
    k["w"]["terminal"] = 1
    k["aim_w"] = [45, 5, 10, 40]
    k["p_end_inside"] = 0.4
    k["p_abort"] = 0.3
    k["silent_abort"] = rng.random() < 0.5
    k["prints"] = rng.choice([1, 2, 3])
    k["w"]["mode"] = 0
    k["w"]["units"] = 0
    k["w"]["arc"] = 0
    if rng.random() < 0.4:
        k["wipe"] = 0.3
        k["retract"] = "e"
        k["w"]["retract"] = 12
    if rng.random() < 0.3:
        k["w"]["upload"] = 5
    if rng.random() < 0.25:
        k["settings"]["atCommandActions"] = list(gen.INTERLEAVED_AT)   # two disable entries match "off"
        k["w"]["at_switch"] = 4


def tune_c14(rng, k):
    k["nregions"] = rng.choice([1, 2, 3])
    k["w"]["at_switch"] = rng.choice([3, 6, 10])
    k["w"]["at_noop"] = 3
    k["w"]["sd_stream_at"] = 1.5
    k["after_enable_moves"] = True
    k["axes_w"] = [40, 20, 20, 10, 10]
    if rng.random() < 0.5:
        k["w"]["mode"] = 3
    if rng.random() < 0.4:
        k["custom_at"] = rng.choice(["only", "both"])
        acts = list(gen.CUSTOM_AT)
        if k["custom_at"] == "both":
            from .worlds.printworld import DEFAULT_AT_ACTIONS
            acts = acts + list(DEFAULT_AT_ACTIONS)
            rng.shuffle(acts)
        k["settings"] = {"atCommandActions": acts}
    if rng.random() < 0.3:
        k["settings"] = dict(k.get("settings") or {}, exitingExcludedRegionGcode=gen.rand_script(rng, "EXIT"))
    k["w"]["g92xyz"] = 0
    k["aim_w"] = [45, 5, 10, 40]
    k["p_foreign_at"] = 0.15
    if rng.random() < 0.4:
        k["w"]["at_config"] = 1.0      # the configured actions change mid-run
        k["at_broken"] = True
    if not k.get("custom_at") and rng.random() < 0.25:
        k["settings"] = dict(k.get("settings") or {}, atCommandActions=list(gen.INTERLEAVED_AT))


def tune_c15(rng, k):
    k["nregions"] = rng.choice([1, 2, 3])
    k["p_end_inside"] = 0.7
    k["p_abort"] = 0.1
    k["hook_repeats"] = True
    k["hook_after_end"] = True
    k["w"]["script_hook"] = 2
    k["nops"] = rng.choice([5, 8, 15, 30])
    k["prints"] = rng.choice([1, 2, 3])
    if rng.random() < 0.5:
        conf = gen.rand_deferral_config(rng)
        k["settings"] = {"extendedExcludeGcodes": conf,
                         "exitingExcludedRegionGcode": gen.rand_script(rng, "EXIT")}
        k["configured"] = [e["gcode"] for e in conf]
        k["w"]["other"] = 20
    k["w"]["g92xyz"] = 0
    k["aim_w"] = [45, 5, 10, 40]
    k["p_abort"] = 0.3
    k["silent_abort"] = rng.random() < 0.3
    if rng.random() < 0.5:
        k["w"]["settings_change"] = 1.5
        k["settings_anytime"] = True
        k["between_settings"] = 0.5
    if rng.random() < 0.3:
        k["w"]["at_switch"] = 1.5     # a job may end with exclusion switched off: the next one starts enabled again


RULE_STATE = ("distinct (abstract filter state, op kind) pairs reached, abstract state = (print active, "
              "exclusion enabled, excluding, retraction none/E/FW x recovery owed x combinable, deferred "
              "commands pending, XYZ mode, units, number of regions 0/1/2+, command source, command class)")

register(PrintCheck("C01", tune_c01, "reference printer F executes every forwarded command: no XY motion "
                    "into a currently defined region while enabled, no XYZ motion / filament advance while "
                    "the input-stream episode tracker says an episode is open, opening move not forwarded"))
register(PrintCheck("C02", tune_c02, "clear-path programs: every input command's hook result normalises to "
                    "exactly [command]; nothing is sent through the comm object; script hook contributes "
                    "nothing"))
register(PrintCheck("C03", tune_c03, "after every input move ending outside all regions: printer F == "
                    "unfiltered printer U in X,Y,Z (1e-6 mm), positioning mode and units; synthesised XY "
                    "travel happens at max(previous Z, target Z)"))
register(PrintCheck("C04", tune_c04, "outside episodes: logical E of F == U after every input command; "
                    "verbatim forwarded E-commands push the same filament on F as on U; no filament advance "
                    "during an episode"))
register(PrintCheck("C05", tune_c05, "retraction-depth ledger d = highwater(p) - p on both printers: "
                    "d_F <= max d_U so far, d_F >= d_U, d_F == d_U before every extruding XY move, synthesised "
                    "commands never raise the high-water mark, G10/G11 parity and parameters preserved"))
register(PrintCheck("C07", tune_c07, "every synthesised G0/G1/G10/G11/G92/merged command passes a strict "
                    "RS274 plain-decimal reader and reads identically with Marlin number semantics"))
register(PrintCheck("C06", tune_c06, "per episode (tracked on the input stream): enter script first and once; "
                    "configured codes withheld; closing output == DeferralModel.flush() then exit script then only "
                    "re-positioning commands, for all four ways an episode ends; nothing leaks into later "
                    "episodes or prints; configured codes pass unchanged outside episodes"))
register(PrintCheck("C14", tune_c14, "model of the configured @-actions: while disabled every input move is the "
                    "last wire command of its step; disable mid-episode sends flush + exit script + "
                    "re-positioning through the comm object and F == U afterwards; after enable the "
                    "suppress/forward decision equals the tracker's (true position of U); non-matching or "
                    "SD-streaming @-commands leave a structural state snapshot unchanged and send nothing"))
register(PrintCheck("C15", tune_c15, "script-hook return values against the lifecycle/episode model: "
                    "(prefix, None) exactly once iff gcode/afterPrintDone while active and an episode is open, "
                    "prefix == flush + exit script + re-positioning and executing it on a copy of F gives "
                    "F.xyz == U.xyz, F.E == U.E; every other invocation returns None"))


# --- API world -------------------------------------------------------------------------------------------
class ApiCheck(object):
    world = "API"
    runs = (50000, 2000000)

    def __init__(self, prop, rule):
        self.prop = prop
        self.rule = rule
        self.rule_state = ("distinct (print active, shrinking allowed, clear-after-print, list size 0..3+, op kind, "
                           "request command, request kind) tuples reached")

    def generate(self, rng):
        from .gen_api import gen_api
        return gen_api(rng, self.prop)

    def execute(self, cfg, schedule):
        from .worlds.apiworld import ApiWorld
        w = ApiWorld(cfg, self.prop)
        v = w.run(schedule)
        inter = "".join({"api": "A", "api_get": "G", "event": "E", "settings": "S", "at": "@", "gcode": "g"}[op["op"]]
                        for op in schedule)
        return {"violation": v, "digest": w.digest(), "stats": w.stats, "abs_states": w.abs_states,
                "ncalls": len(schedule), "sim_time": 0.0, "interleaving": hash_str(inter)}


register(ApiCheck("C12", "witness points (corners, edge and interior points, 64 boundary directions) that the "
                  "filter reports excluded before a request made during an active print with shrinking disallowed "
                  "are still excluded after it; deletes are answered 409; a request answered with an error "
                  "leaves the list deep-equal. rect/rect with zero tolerance, circle-involving pairs with witnesses "
                  "pulled 1e-9*scale inside"))
register(ApiCheck("C13", "after every step: ids unique; GET payload (real jsonify) == registry model (order "
                  "included); response status as the model predicts; list changed => exactly one new notification; "
                  "every notification's payload == current list"))


# --- C09 -------------------------------------------------------------------------------------------------
class FuzzCheck(object):
    world = "FUZZ"
    prop = "C09"
    runs = (40000, 1500000)
    rule = ("wide-grammar command streams after G28 through the live hooks (stub comm) and through "
            "StreamProcessor.process_line on a snapshot: no exception leaves an entry point while the axes are "
            "homed; live result is None, a suppress tuple or a non-empty list of non-empty str; offline result is "
            "None or a str ending in the file's EOL")
    rule_state = ("distinct (excluding, enabled, retraction recorded, deferred pending, XYZ mode, units, command "
                  "class, raised) tuples reached")

    def generate(self, rng):
        from .worlds.fuzzworld import gen_fuzz
        return gen_fuzz(rng)

    def execute(self, cfg, schedule):
        from .worlds.fuzzworld import FuzzWorld
        w = FuzzWorld(cfg)
        v = w.run(schedule)
        inter = "".join(op["op"][0] for op in schedule)
        return {"violation": v, "digest": w.digest(), "stats": w.stats, "abs_states": w.abs_states,
                "ncalls": w.ncalls, "sim_time": 0.0, "interleaving": hash_str(inter)}


register(FuzzCheck())


# --- C11 -------------------------------------------------------------------------------------------------
class LifeCheck(object):
    world = "LIFECYCLE"
    prop = "C11"
    runs = (50000, 2000000)
    rule = ("lifecycle reference state machine driven by delivered events under an adversarial bus: plugin "
            "active flag == model after every delivery; while inactive the gcode hook returns None, the script "
            "hook None, the @-hook sends nothing and a structural state snapshot is unchanged by the call; "
            "FILE_SELECTED empties the region list, an end event empties it iff the last delivered setting says "
            "so, every other event leaves it unchanged; pause/resume and unrelated events change nothing")
    rule_state = "distinct (entry point, event/code/script name, model active, clear-after / excluding) tuples"

    def generate(self, rng):
        from .worlds.lifeworld import gen_life
        return gen_life(rng)

    def execute(self, cfg, schedule):
        from .worlds.lifeworld import LifeWorld
        w = LifeWorld(cfg)
        v = w.run(schedule)
        inter = "".join(op["op"][0] for op in schedule)
        return {"violation": v, "digest": w.digest(), "stats": w.stats, "abs_states": w.abs_states,
                "ncalls": w.n, "sim_time": 0.0, "interleaving": hash_str(inter)}


register(LifeCheck())


# --- C10 -------------------------------------------------------------------------------------------------
class RestartCheck(object):
    world = "RESTART"
    prop = "C10"
    runs = (25000, 800000)
    rule = ("phase 1 = arbitrary history cut at an arbitrary op; then PRINT_STARTED to the used plugin and to a "
            "freshly built plugin given the same settings store and copies of the regions; phase 2 = one schedule "
            "(program text, API, events, script hooks) applied to both: hook results, comm sends, script-hook "
            "returns, API responses, GET payloads and notifications identical step by step")
    rule_state = ("distinct history states at the restart: (active, excluding, enabled, retraction kind x owed, "
                  "deferred pending, XYZ mode, units, position unknown, regions 0/1/2+)")

    def generate(self, rng):
        from .worlds.printworld import prerender
        k = gen.knobs(rng, "C10")
        k["nregions"] = rng.choice([1, 1, 2, 3])
        k["retract"] = rng.choice(["e", "e", "fw"])
        k["w"]["retract"] = 15
        k["w"]["at_switch"] = 3
        k["w"]["mode"] = 2
        k["w"]["units"] = 1.5
        k["w"]["other"] = 15
        k["w"]["settings_change"] = 1
        k["p_abort"] = 0.5
        k["aim_w"] = [50, 5, 10, 35]
        k["prints"] = rng.choice([1, 2])
        k["wipe"] = rng.choice([0, 0.3, 0.6])
        k["double_retract"] = rng.choice([0, 0.3])
        k["settings_anytime"] = True
        k["between_settings"] = 0.4
        k["w"]["at_config"] = 0.5
        conf = gen.rand_deferral_config(rng)
        k["settings"] = {"extendedExcludeGcodes": conf, "exitingExcludedRegionGcode": gen.rand_script(rng, "EXIT"),
                         "enteringExcludedRegionGcode": gen.rand_script(rng, "ENTER")}
        if rng.random() < 0.3:
            k["settings"]["clearRegionsAfterPrintFinishes"] = True
        k["configured"] = [e["gcode"] for e in conf]
        cfg, ops1, g1 = gen.gen_print_schedule(rng, "C10", k, return_gen=True)
        # cut the history at an arbitrary point (possibly mid-print: restart without an end event), and let the
        # bus misbehave a little before that
        cut = rng.randrange(1, len(ops1) + 1) if rng.random() < 0.7 else len(ops1)
        ops1 = ops1[:cut]
        if rng.random() < 0.3:
            # settings saved after the history stopped (e.g. while idle after an aborted job)
            ops1.append({"op": "settings", "set": {rng.choice(["enteringExcludedRegionGcode",
                         "exitingExcludedRegionGcode"]): gen.rand_script(rng, rng.choice(["ENTER", "EXIT"]))}})
        if rng.random() < 0.15:
            # the global "G90/G91 influence the extruder" feature switched at run time (a fresh plugin reads it at
            # start-up, a used one on SETTINGS_UPDATED)
            ops1.insert(rng.randrange(0, len(ops1) + 1), {"op": "settings", "set": {"g90e": not cfg["g90e"]}})
        if rng.random() < 0.2:
            # a home offset set in the earlier job (M206 survives neither a firmware reset nor a fresh plugin); the
            # second file never mentions it
            ops1.insert(rng.randrange(1, len(ops1) + 1), {"op": "line", "text": "M206" + "".join(
                " %s%s" % (a, rng.choice(["-30", "12.5", "-7.25", "40"])) for a in rng.sample("XYZ", rng.randrange(1, 4)))})
        for _ in range(rng.choice([0, 0, 1, 2])):
            pos = rng.randrange(0, len(ops1) + 1)
            ops1.insert(pos, rng.choice([{"op": "event", "name": rng.choice(
                ["PrintStarted", "PrintDone", "PrintCancelled", "FileSelected", "PrintPaused"])},
                {"op": "bus", "do": rng.choice(["dup", "drop", "swap"])}, {"op": "deliver", "n": 1}]))
        # phase 2
        k2 = gen.knobs(rng, "C10")
        k2["settings"] = {}
        k2["may_shrink"] = k["may_shrink"]
        k2["prints"] = 1
        k2["nregions"] = 0
        k2["w"]["retract"] = 12
        k2["w"]["at_switch"] = 2
        k2["w"]["other"] = 12
        k2["w"]["script_hook"] = 1
        k2["configured"] = k.get("configured")
        k2["nops"] = rng.choice([5, 10, 20, 40])
        k2["p_abort"] = 0.2
        k2["p_end_inside"] = 0.3
        k2["w"]["upload"] = 0
        k2["wipe"] = rng.choice([0, 0.3])
        k2["w"]["arc"] = rng.choice([0, 4, 8])
        regions = {} if cfg["settings"].get("clearRegionsAfterPrintFinishes") else g1.regions
        _c2, ops2 = gen.gen_print_schedule(rng, "C10", k2, regions=regions, nid=g1.nid + 100)
        ops2 = [op for op in ops2 if op["op"] != "print_start"]
        if rng.random() < 0.2:
            ops2 = [op for op in ops2 if op["op"] != "home"]
        ops2 = prerender(cfg, ops2, g90e=cfg["g90e"])
        if rng.random() < 0.35:
            # a file that relies on the defaults: no explicit G21 / G90 at its start
            head = [i for i, op in enumerate(ops2[:6]) if op["op"] == "line" and op["text"] in ("G21", "G90")]
            ops2 = [op for i, op in enumerate(ops2) if i not in head]
            k2["w"]["arc"] = 6
        out = []
        for op in ops2:
            if op["op"] == "abort":
                out.append({"op": "event", "name": rng.choice(["PrintCancelled", "PrintFailed", "Error"])})
            elif op["op"] in ("pause", "resume", "deliver", "clock", "logfail"):
                continue
            else:
                out.append(op)
        return cfg, ops1 + [{"op": "restart"}] + out

    def execute(self, cfg, schedule):
        from .worlds.restartworld import RestartWorld
        w = RestartWorld(cfg)
        v = w.run(schedule)
        inter = "".join(_ACTOR.get(op["op"], "s") for op in schedule)
        return {"violation": v, "digest": w.digest(), "stats": w.stats, "abs_states": w.abs_states,
                "ncalls": w.ncalls, "sim_time": 0.0, "interleaving": hash_str(inter)}


register(RestartCheck())


# --- C08 -------------------------------------------------------------------------------------------------
class TwinCheck(object):
    world = "TWIN-PRINT"
    prop = "C08"
    runs = (30000, 1000000)
    rule = ("base run (mm, absolute) vs re-encoded twin under the same schedule (G20 / G91 / G92 X Y Z inserted "
            "at an arbitrary step, or path and every region request translated by one vector): per abstract step "
            "same forwarded/suppressed decision, same excluding flag, printer positions equal within 2e-4 mm "
            "(minus the vector), same filament total")

    def generate(self, rng):
        k = gen.knobs(rng, "C08")
        k["nregions"] = rng.choice([1, 1, 2, 3])
        k["prints"] = 1
        k["p_abort"] = 0.0
        k["w"]["arc"] = 0
        k["w"]["mode"] = 0
        k["w"]["units"] = 0
        k["w"]["g92xyz"] = 0
        k["w"]["g92e"] = 1
        k["w"]["pause"] = 0
        k["aim_w"] = [45, 0, 15, 40]
        k["axes_w"] = [55, 10, 10, 15, 10]
        k["keep_zeros"] = False
        k["c08"] = True
        kind = rng.choice(["inch", "rel", "translate", "translate", "inch", "rel", "g92"])
        if kind in ("rel", "translate") and rng.random() < 0.5:
            # arcs only where the sampling resolution is the same in both encodings (1 mm), and only arcs that
            # reach clearly into a region (> 1 mm) or stay clearly out of all of them (> 0.5 mm)
            k["w"]["arc"] = 6
            k["arc_margin"] = True
        k["numstyle"] = None
        k["compact"] = False
        if kind in ("inch", "rel") and rng.random() < 0.4:
            k["w"]["rehome"] = 1.5      # G28 (full or partial) in the middle of the job, outside episodes
        cfg, ops = gen.gen_print_schedule(rng, "C08", k)
        enc = {"kind": kind, "from": rng.randrange(0, max(1, len(ops)))}
        if kind == "g92":
            for l in rng.choice(["x", "y", "z", "xy", "xyz"]):
                enc[l] = round(rng.uniform(-50, 50), 2)
        if kind == "translate":
            # until the first full XY move the tool sits at the home position in both runs: keep that point
            # clearly outside every region that exists by then, in both frames
            from .models import norm_region, depth
            first_xy = next((i for i, op in enumerate(ops) if op["op"] == "move" and op.get("x") is not None
                             and op.get("y") is not None), len(ops))
            early = [norm_region(op["data"]) for op in ops[:first_xy]
                     if op["op"] == "api" and op["cmd"] in ("addExcludeRegion", "updateExcludeRegion")
                     and op["data"].get("type") in ("RectangularRegion", "CircularRegion")]
            ok = False
            for _ in range(30):
                vec = [round(rng.uniform(-30, 30), 1), round(rng.uniform(-30, 30), 1)]
                if all(depth(r, 0.0, 0.0) < -0.5 and depth(r, -vec[0], -vec[1]) < -0.5 for r in early):
                    ok = True
                    break
            if ok:
                enc["vec"] = vec
                enc["from"] = first_xy
            else:
                enc["kind"] = "rel" if k.get("arc_margin") else "inch"
        cfg["encoding"] = enc
        return cfg, ops

    def execute(self, cfg, schedule):
        from .worlds.twinworld import TwinWorld
        w = TwinWorld(cfg)
        v = w.run(schedule)
        inter = "".join(_ACTOR.get(op["op"], "s") for op in schedule) + cfg["encoding"]["kind"]
        return {"violation": v, "digest": w.digest(), "stats": w.stats, "abs_states": w.abs_states,
                "ncalls": w.ncalls, "sim_time": 0.0, "interleaving": hash_str(inter)}


register(TwinCheck())


# --- C20 -------------------------------------------------------------------------------------------------
def decorate_file(rng, lines, eol, nlines):
    """Program lines -> file lines with comments, indentation, blank / comment-only lines, N-numbers+checksums."""
    out = []
    n = 0
    for text in lines:
        while rng.random() < 0.12:
            out.append(rng.choice(["", "   ", "; just a comment", "  ; indented comment", ";", "\t"]) + eol)
        t = text
        if t.startswith("@") and " " in t and rng.random() < 0.2:
            # any whitespace separates an @-command from its parameters (the host splits with str.split(None, 1))
            t = t.replace(" ", rng.choice(["\t", "  ", " \t "]), 1)
        if nlines and not t.startswith("@"):
            n += 1
            body = "N%d %s" % (n, t)
            cs = 0
            for b in bytearray(body.encode()):
                cs ^= b
            t = "%s*%d" % (body, cs)
        if rng.random() < 0.2:
            t = rng.choice(["  ", " ", "    "]) + t
        if rng.random() < 0.3:
            t = t + rng.choice([" ; comment", ";c", "   ;   spaced comment", " ;"])
        elif rng.random() < 0.1:
            t = t + "  "
        out.append(t + eol)
    return out


class OfflineCheck(object):
    world = "OFFLINE"
    prop = "C20"
    runs = (16000, 600000)
    rule = ("per file line: StreamProcessor.process_line output, split on the EOL and canonicalised with the host's "
            "process_gcode_line, == what a twin GcodeHandlers on an equal state yields for the command the live hooks "
            "would receive; returned text ends with the file's EOL; lines the live path leaves alone (handler says "
            "unchanged, blank / comment lines, @-lines without a matching action) come back byte-identical; a "
            "structural snapshot of the live state is unchanged by every offline step and the live outputs equal a "
            "control run without the uploader")
    rule_state = ("distinct (snapshot state: active, excluding, enabled, retraction, pending, XYZ mode, units, "
                  "unhomed) and (line kind, unchanged, dropped, offline excluding, terminated) tuples")

    def generate(self, rng):
        from .worlds.printworld import prerender
        k = gen.knobs(rng, "C20")
        k["nregions"] = rng.choice([1, 1, 2, 3])
        k["retract"] = rng.choice(["e", "e", "fw"])
        k["w"]["retract"] = 12
        k["w"]["at_switch"] = 2
        k["w"]["mode"] = 1.5
        k["w"]["units"] = 1
        k["prints"] = 1
        k["p_abort"] = 0.3
        k["aim_w"] = [50, 5, 10, 35]
        k["w"]["upload"] = 0          # the uploader is this world's own actor
        cfg, ops1, g1 = gen.gen_print_schedule(rng, "C20", k, return_gen=True)
        cut = rng.randrange(1, len(ops1) + 1)
        live_rest = ops1[cut:]
        ops1 = ops1[:cut]
        # the file: a program of its own, rendered to text at generation time
        k2 = gen.knobs(rng, "C20")
        k2["prints"] = 1
        k2["nregions"] = 0
        k2["nops"] = rng.choice([5, 10, 20, 40])
        k2["w"]["retract"] = 12
        k2["w"]["at_switch"] = 2
        k2["w"]["at_noop"] = 2
        k2["w"]["other"] = 10
        k2["w"]["arc"] = rng.choice([0, 0, 4])
        for key in ("region_add", "region_grow", "region_shrink", "region_refused", "terminal", "pump", "clock",
                    "logfail", "pause", "api_get", "settings_same"):
            k2["w"][key] = 0
        _c, fops = gen.gen_print_schedule(rng, "C20", k2, regions=g1.regions, nid=g1.nid + 100)
        fops = [op for op in fops if op["op"] in PrintWorld.SENDER_OPS]
        if rng.random() < 0.2:
            fops = [op for op in fops if op["op"] != "home"]
        lines = [op["text"] for op in prerender(cfg, fops, g90e=cfg["g90e"])]
        eol = rng.choice(["\n", "\n", "\r\n"])
        nlines = rng.random() < 0.1
        flines = decorate_file(rng, lines, eol, nlines)
        if flines:
            r = rng.random()
            if r < 0.25:
                flines[-1] = flines[-1][:-len(eol)]                      # no final terminator
            elif r < 0.4:
                body = flines[-1][:-len(eol)]
                flines[-1] = body[:rng.randrange(0, len(body) + 1)]      # torn last line
        ups = [{"op": "upload_line", "text": t} for t in flines]
        # interleave the rest of the live traffic with the upload, maybe abandon and start over
        out = list(ops1) + [{"op": "upload_new"}]
        live_rest = list(live_rest)
        while ups or live_rest:
            if ups and (not live_rest or rng.random() < 0.7):
                out.append(ups.pop(0))
                if rng.random() < 0.02:
                    out.append({"op": "upload_abandon"})
                    out.append({"op": "upload_new"})
            else:
                out.append(live_rest.pop(0))
        cfg["nlines"] = nlines
        return cfg, out

    def execute(self, cfg, schedule):
        from .worlds.offlineworld import OfflineWorld
        w = OfflineWorld(cfg)
        v = w.run(schedule)
        if v is None:
            c = OfflineWorld(cfg, with_uploader=False)
            c.run(schedule)
            if c.live_digest() != w.live_digest():
                v = {"property": "C20", "clause": "C20.isolation_control", "op": len(schedule) - 1,
                     "message": "the live outputs differ from a control run of the same schedule without the uploader"}
        inter = "".join("U" if op["op"].startswith("upload") else _ACTOR.get(op["op"], "s") for op in schedule)
        st = w.stats
        st.update({k_: v_ for k_, v_ in w.live.stats.items() if k_.startswith(("fault:", "op:"))})
        return {"violation": v, "digest": w.digest(), "stats": st, "abs_states": w.abs_states,
                "ncalls": w.ncalls + w.live.call_index + 1, "sim_time": 0.0, "interleaving": hash_str(inter)}


register(OfflineCheck())
