"""Command line: bin/check <ID> [--tier quick|thorough] [--runs N] [--replay FILE] [--workers N]

exit 0  property held on everything explored (known findings printed as KNOWN-FINDING lines)
exit 1  VIOLATION property=<id> replay=<path>
exit 2  HARNESS-ERROR (determinism mismatch, worker death, timeout, exception inside the simulator)
"""
from __future__ import annotations

import argparse
import json
import os
import subprocess
import sys
import time

from . import engine


def tier_runs(check, tier):
    q, t = getattr(check, "runs", (3000, 150000))
    return q if tier == "quick" else t


def write_evidence(prop, tier, master, check, agg, violations, known, harness_errors, extra=None):
    os.makedirs(engine.EVIDENCE, exist_ok=True)
    stats = agg["stats"]
    faults = {k[6:]: v for k, v in sorted(stats.items()) if k.startswith("fault:")}
    probes = {k[6:]: v for k, v in sorted(stats.items()) if k.startswith("probe:")}
    foreign = {k[8:]: v for k, v in sorted(stats.items()) if k.startswith("foreign:")}
    ops = {k[3:]: v for k, v in sorted(stats.items()) if k.startswith("op:")}
    wall = agg.get("wall", 0.0)
    cov = {
        "evaluations": int(agg["ncalls"]) or int(agg["n"]),
        "distinct_nontrivial": len(agg["abs"]),
        "rule": check.rule + " | non-trivial/distinct: " + getattr(check, "rule_state", DEFAULT_RULE_STATE),
        "samples": agg["samples"][:3] or [{"note": "no sample kept"}],
        "runs": agg["n"],
        "runs_per_hour": int(agg["n"] / wall * 3600) if wall > 0 else 0,
        "ops_executed": agg["nops"],
        "hook_invocations": agg["ncalls"],
        "simulated_seconds": round(agg["sim_time"], 1),
        "distinct_interleavings": len(agg["inter"]),
        "faults_fired": faults,
        "probes": probes,
        "ops_by_kind": ops,
        "other_properties_clauses_hit_runs": foreign,
        "other_properties_clauses_note": "runs of this batch in which a clause owned by another property fired at "
                                         "least once; such clauses are judged only by the owning property's check, "
                                         "whose generation profile keeps that property's preconditions",
        "other_counters": {k: v for k, v in sorted(stats.items()) if ":" not in k},
        "determinism_selftest": agg.get("determinism"),
        "truncated": bool(agg.get("truncated")),
        "known_findings_matched": known,
        "harness_errors": len(harness_errors),
        "components": COMPONENTS,
        "world": getattr(check, "world", "?"),
    }
    if extra:
        cov.update(extra)
    ev = {
        "property_id": prop, "tier": tier, "seed": int(master), "level": "exploration",
        "coverage": cov,
        "assumptions": ASSUMPTIONS + list(getattr(check, "assumptions", [])),
        "wall_s": round(wall, 2), "violations": len(violations),
    }
    with open(os.path.join(engine.EVIDENCE, prop + ".json"), "w") as f:
        json.dump(ev, f, indent=1, sort_keys=True, default=str)


DEFAULT_RULE_STATE = ("distinct (abstract filter state, command class) pairs reached; abstract state = (print "
                      "active, exclusion enabled, excluding, retraction none/E/FW x recovery-owed x combinable, "
                      "deferred pending, XYZ mode, units, regions 0/1/2+, command source)")

COMPONENTS = {
    "real": ["octoprint_excluderegion/* from the tree under test (all modules incl. ExcludeRegionPlugin)",
             "octoprint.plugin.plugin_settings / octoprint.settings.Settings on a scratch basedir",
             "octoprint.util.comm._normalize_command_handler_result / process_gcode_line / "
             "gcode_and_subcode_for_cmd", "octoprint.events.Events", "flask.jsonify in an app context"],
    "stub": ["MachineCom orchestration (SimComm, transcribed ordering rules of comm.py 1.11.8)",
             "EventManager (SimBus)", "plugin manager (records send_plugin_message)", "flask_login current_user",
             "printer firmware (RefPrinter reference model, Marlin 1.1.x semantics)", "clock, uuid, log sink"],
}
ASSUMPTIONS = [
    "one invocation of a plugin entry point is atomic (L1 interleaving granularity, DESIGN 1)",
    "RefPrinter encodes Marlin 1.1.x semantics; firmware retraction length fixed, no Z hop",
    "sampling, not enumeration: a clean batch is evidence, not proof",
]


def handle_violation(prop, check, seed, verbose=True):
    """Regenerate, minimise, classify against known findings, write + verify the replay file."""
    r = engine.run_one(prop, seed, keep_case=True)
    if r.error is not None or r.violation is None:
        return ("error", "violation of seed %d did not reproduce on re-execution: %s" % (seed, r.error), None)
    clause = r.violation["clause"]
    cfg, sched, tests = engine.minimise(check, r.cfg, r.schedule, clause)
    out = check.execute(cfg, sched)
    v = out["violation"]
    if v is None or v["clause"] != clause:
        cfg, sched, out, v = r.cfg, r.schedule, check.execute(r.cfg, r.schedule), None
        v = out["violation"]
    known = engine.match_known(prop, v, cfg, sched)
    path = engine.write_replay(prop, seed, cfg, sched, v, out["digest"], len(r.schedule), tests)
    # replay in a fresh interpreter: must reproduce exactly
    env = dict(os.environ)
    env["PYTHONHASHSEED"] = "0"
    p = subprocess.run([sys.executable, "-m", "sim.cli", prop, "--replay", path, "--quiet"],
                       cwd=engine.VERIF, env=env, capture_output=True, text=True, timeout=600)
    if p.returncode != 1:
        return ("error", "replay of %s in a fresh process did not reproduce (exit %d): %s"
                % (path, p.returncode, (p.stdout + p.stderr)[-400:]), path)
    if known is not None:
        return ("known", known, path)
    return ("violation", v, path)


def determinism_selftest(prop, master, n=40):
    """Same seeds executed in this process and in a fresh interpreter with another PYTHONHASHSEED."""
    seeds = [engine.derive_seed(master, prop, 10_000_000 + i) for i in range(n)]
    a = {}
    for s in seeds:
        r = engine.run_one(prop, s)
        a[s] = r.digest if r.error is None else "ERR:" + r.error.splitlines()[0]
    env = dict(os.environ)
    env["PYTHONHASHSEED"] = "12345"
    # the child runs them in reverse order: state leaking from one run into the next would show as a mismatch
    p = subprocess.run([sys.executable, "-m", "sim.cli", prop, "--digests", ",".join(map(str, reversed(seeds)))],
                       cwd=engine.VERIF, env=env, capture_output=True, text=True, timeout=900)
    try:
        b = {int(k): v for k, v in json.loads(p.stdout.strip().splitlines()[-1]).items()}
    except Exception:
        return {"ok": False, "n": n, "detail": "child failed: " + (p.stdout + p.stderr)[-300:]}
    bad = [s for s in seeds if a[s] != b.get(s)]
    return {"ok": not bad, "n": n, "mismatching_seeds": bad[:5]}


def main(argv=None):
    ap = argparse.ArgumentParser()
    ap.add_argument("prop")
    ap.add_argument("--tier", default=os.environ.get("VERIF_TIER", "quick"))
    ap.add_argument("--runs", type=int, default=None)
    ap.add_argument("--workers", type=int, default=None)
    ap.add_argument("--replay", default=None)
    ap.add_argument("--digests", default=None)
    ap.add_argument("--quiet", action="store_true")
    ap.add_argument("--seed", type=int, default=None)
    ap.add_argument("--no-evidence", action="store_true")
    ap.add_argument("--max-report", type=int, default=6)
    ap.add_argument("--no-selftest", action="store_true", help="skip the in-check determinism sample (sweeps only)")
    args = ap.parse_args(argv)
    master = args.seed if args.seed is not None else int(os.environ.get("VERIF_SEED", "20260927"))
    prop = args.prop

    if prop.startswith("selftest"):
        from . import selftest
        return selftest.main(prop, master, args)

    check = engine.get_check(prop)

    if args.digests:
        out = {}
        for s in map(int, args.digests.split(",")):
            r = engine.run_one(prop, s)
            out[s] = r.digest if r.error is None else "ERR:" + r.error.splitlines()[0]
        print(json.dumps(out))
        return 0

    if args.replay:
        rp, out, same = engine.replay(args.replay)
        v = out["violation"]
        if not args.quiet:
            print("seed=%s recorded=%s" % (rp["seed"], json.dumps(rp["violation"])))
            print("now     =%s" % json.dumps(v))
            print("digest recorded=%s now=%s" % (rp["digest"], out["digest"]))
        if v is None:
            print("replay: no violation on this tree")
            return 0
        if not same:
            print("replay: violation differs from the recorded one (%s)" % (v["clause"],))
        print("VIOLATION property=%s replay=%s" % (prop, args.replay))
        return 1

    nruns = args.runs or tier_runs(check, args.tier)
    print("seed=%d property=%s tier=%s runs=%d" % (master, prop, args.tier, nruns))
    sys.stdout.flush()
    cap = 3300 if args.tier == "quick" else 6 * 3600
    agg = engine.run_batch(prop, master, nruns, workers=args.workers, wall_cap=cap)
    harness_errors = list(agg["errors"])
    if args.no_selftest:
        agg["determinism"] = {"ok": True, "n": 0, "skipped": True}
    else:
        agg["determinism"] = determinism_selftest(prop, master, 40 if args.tier == "quick" else 200)
    if not agg["determinism"]["ok"]:
        harness_errors.append((-1, "determinism self-test failed: %r" % (agg["determinism"],)))

    # classify violations: one report per distinct clause (first seeds), a few at most
    violations, known = [], []
    seen_clause = {}
    for seed, v in sorted(agg["viol"], key=lambda t: t[0]):
        seen_clause.setdefault(v["clause"], []).append(seed)
    t_report = time.time()
    for clause, seeds in sorted(seen_clause.items()):
        outcome = None
        for seed in seeds[:3]:
            kind, info, path = handle_violation(prop, check, seed)
            if kind == "known":
                outcome = outcome or ("known", info, path)
                continue      # look whether another seed of this clause is *not* covered by a known finding
            outcome = (kind, info, path)
            break
        kind, info, path = outcome
        if kind == "error":
            harness_errors.append((seeds[0], info))
        elif kind == "known":
            known.append({"clause": clause, "finding": info["id"], "runs": len(seeds), "replay": path})
            print("KNOWN-FINDING: property=%s %s [%s] (%d runs, e.g. replay=%s)"
                  % (prop, info["what"], info["id"], len(seeds), path))
        else:
            violations.append({"clause": clause, "violation": info, "replay": path, "runs": len(seeds)})
            print("VIOLATION property=%s replay=%s" % (prop, path))
            print("  clause=%s runs=%d: %s" % (clause, len(seeds), info["message"]))
        if len(violations) >= args.max_report or time.time() - t_report > 1500:
            break

    if not args.no_evidence:
        write_evidence(prop, args.tier, master, check, agg, violations, known, harness_errors)
    print("runs=%d calls=%d wall=%.1fs runs/h=%d states=%d violations=%d known=%d errors=%d"
          % (agg["n"], agg["ncalls"], agg["wall"], int(agg["n"] / max(agg["wall"], 1e-9) * 3600),
             len(agg["abs"]), len(violations), len(known), len(harness_errors)))
    if harness_errors:
        for seed, e in harness_errors[:5]:
            print("HARNESS-ERROR seed=%s %s" % (seed, str(e)[:1500]))
        return 2
    if violations:
        return 1
    return 0


if __name__ == "__main__":
    sys.exit(main())
