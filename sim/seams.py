"""Seams: everything nondeterministic or host-provided that the plugin touches, owned by the simulator.

No source hook in /repo is needed: every seam is a module attribute that is replaced from outside.
Importing this module
  * puts the tree under test (VERIF_REPO, default /repo) first on sys.path and asserts that the plugin
    package really was imported from there,
  * initialises the *real* OctoPrint settings singleton on a throw-away base directory,
  * replaces clock / uuid / current_user / settings() as seen by the plugin's modules.
"""
from __future__ import annotations

import atexit
import errno
import logging
import logging.handlers
import os
import shutil
import sys
import tempfile
import warnings

warnings.filterwarnings("ignore")

REPO = os.path.realpath(os.environ.get("VERIF_REPO", "/repo"))
if sys.path[0] != REPO:
    sys.path.insert(0, REPO)

# --- real OctoPrint settings on a scratch basedir ---------------------------------------------
_BASEDIR = tempfile.mkdtemp(prefix="verif-octo-")
_OWNER_PID = os.getpid()


def _cleanup():
    if os.getpid() == _OWNER_PID:
        shutil.rmtree(_BASEDIR, ignore_errors=True)


atexit.register(_cleanup)

from octoprint.settings import settings as _octo_settings  # noqa: E402

SETTINGS = _octo_settings(init=True, basedir=_BASEDIR)

import octoprint_excluderegion as P  # noqa: E402
import importlib  # noqa: E402

_ERS_mod = importlib.import_module("octoprint_excluderegion.ExcludeRegionState")
_RR_mod = importlib.import_module("octoprint_excluderegion.RectangularRegion")
_CR_mod = importlib.import_module("octoprint_excluderegion.CircularRegion")
_GH_mod = importlib.import_module("octoprint_excluderegion.GcodeHandlers")
_SP_mod = importlib.import_module("octoprint_excluderegion.StreamProcessor")
from octoprint.plugin import plugin_settings  # noqa: E402
from octoprint.events import Events  # noqa: E402,F401

assert os.path.realpath(P.__file__).startswith(REPO + os.sep), (P.__file__, REPO)

logging.raiseExceptions = False  # as in production (OctoPrint sets this)


# --- clock ---------------------------------------------------------------------------------------
class SimClock(object):
    """Replaces the `time` module inside ExcludeRegionState. value = simulated time + injected skew."""

    def __init__(self):
        self.now = 1.7e9
        self.skew = 0.0
        self.frozen = None
        self.reads = 0

    def time(self):
        self.reads += 1
        if self.frozen is not None:
            return self.frozen
        return self.now + self.skew

    def advance(self, dt):
        self.now += dt


CLOCK = SimClock()
_ERS_mod.time = CLOCK


# --- uuid ------------------------------------------------------------------------------------------
class SimUuid(object):
    def __init__(self):
        self.n = 0

    def uuid4(self):
        self.n += 1
        return "auto-%06d" % self.n


UUID = SimUuid()
_RR_mod.uuid = UUID
_CR_mod.uuid = UUID


# --- authentication ------------------------------------------------------------------------------
class SimUser(object):
    def __init__(self):
        self.anon = False

    def is_anonymous(self):
        return self.anon


USER = SimUser()
P.current_user = USER

# global settings as seen by the plugin: the real singleton (already is), kept explicit
P.settings = lambda: SETTINGS


# --- log sink ----------------------------------------------------------------------------------------
class SimLogHandler(logging.Handler):
    """In-memory sink. Formats every record (forcing every %s -> __repr__ -> toJson path) and can be
    told to fail like a full disk. Like the stdlib file handlers it routes failures to handleError."""

    def __init__(self):
        logging.Handler.__init__(self, logging.DEBUG)
        self.fail = False
        self.records = 0
        self.failed = 0
        self.format_errors = 0
        self.bytes = 0

    def emit(self, record):
        try:
            try:
                msg = record.getMessage()
            except Exception:
                self.format_errors += 1
                raise
            self.records += 1
            self.bytes += len(msg)
            if self.fail:
                self.failed += 1
                raise OSError(errno.ENOSPC, "No space left on device")
        except Exception:
            self.handleError(record)


class SimRotatingFileHandler(SimLogHandler):
    """Stands in for logging.handlers.RotatingFileHandler (dedicated plugin log)."""

    instances = []

    def __init__(self, filename, maxBytes=0, backupCount=0, **kw):
        SimLogHandler.__init__(self)
        self.filename = filename
        SimRotatingFileHandler.instances.append(self)


logging.handlers.RotatingFileHandler = SimRotatingFileHandler

LOG_LEVELS = {"off": 100, "info": logging.INFO, "debug": logging.DEBUG}


_LOGGER_SEQ = [0]


def make_logger(level):
    """A *registered* logger (as OctoPrint hands to plugins): StreamProcessor deep-copies the state, and a
    Logger only survives copy.deepcopy if logging.getLogger(name) returns it."""
    name = "octoprint.plugins.excluderegion.sim%d" % _LOGGER_SEQ[0]
    _LOGGER_SEQ[0] += 1
    lg = logging.getLogger(name)
    for old in list(lg.handlers):
        lg.removeHandler(old)
    for f in list(lg.filters):
        lg.removeFilter(f)
    lg.setLevel(LOG_LEVELS[level])
    lg.disabled = False
    h = SimLogHandler()
    lg.addHandler(h)
    lg.propagate = False
    return lg, h


# --- plugin manager stub -------------------------------------------------------------------------------
class SimPluginManager(object):
    def __init__(self):
        self.messages = []

    def send_plugin_message(self, ident, data):
        # what a client would see: a JSON round trip of the payload at the time it was sent
        import json
        self.messages.append((ident, json.loads(json.dumps(data))))


# --- plugin factory --------------------------------------------------------------------------------------
def reset_settings():
    """Back to defaults: plugin subtree removed, global feature flag off."""
    # Settings.remove() of a subtree leaves flattened list entries behind when two different lists were
    # stored one after the other (observed with octoprint 1.11.8), so replace the whole config layer.
    SETTINGS._map.top_map = {}
    SETTINGS.setBoolean(["feature", "g90InfluencesExtruder"], False)


def set_g90_influences_extruder(value):
    SETTINGS.setBoolean(["feature", "g90InfluencesExtruder"], bool(value))


def make_plugin(log_level="off"):
    """A real ExcludeRegionPlugin wired the way OctoPrint's plugin core wires it."""
    u = P.ExcludeRegionPlugin()
    u._identifier = "excluderegion"
    u._plugin_name = "Exclude Region"
    u._plugin_version = "sim"
    lg, h = make_logger(log_level)
    u._logger = lg
    u._sim_log_handler = h
    u._plugin_manager = SimPluginManager()
    get_pre, set_pre = u.get_settings_preprocessors()
    u._settings = plugin_settings(
        "excluderegion", defaults=u.get_settings_defaults(),
        get_preprocessors=get_pre, set_preprocessors=set_pre, settings=SETTINGS)
    u.initialize()
    return u


def reset_run_globals():
    """Everything process-global that a run may have touched; called at the start of every run."""
    reset_settings()
    CLOCK.__init__()
    UUID.__init__()
    USER.anon = False
    SimRotatingFileHandler.instances = []
    _LOGGER_SEQ[0] = 0
