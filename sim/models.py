"""Small executable reference models used as oracles (independent of the plugin's code)."""
from __future__ import annotations

import math
import re
from collections import OrderedDict
from fractions import Fraction

DELTA = 1e-6  # mm: closer than this to a border => AMBIG outside exact frames

IN, OUT, AMBIG = "IN", "OUT", "AMBIG"


# ---------------------------------------------------------------------------------------------------
# Region geometry (regions are plain dicts as sent to / returned by the API)
# ---------------------------------------------------------------------------------------------------
def _num(v):
    try:
        return float(v)
    except (TypeError, ValueError):
        return repr(v)        # not a number: keep it visible, never crash the harness


def norm_region(d):
    """Canonical dict of a region request, mirroring only the documented normalisation
    (floats; rectangle corners ordered)."""
    if d.get("type") == "RectangularRegion":
        x1, y1, x2, y2 = (_num(d.get(k, 0)) for k in ("x1", "y1", "x2", "y2"))
        if any(isinstance(v, str) for v in (x1, y1, x2, y2)):
            return {"type": "RectangularRegion", "id": d.get("id"), "x1": x1, "y1": y1, "x2": x2, "y2": y2}
        if x2 < x1:
            x1, x2 = x2, x1
        if y2 < y1:
            y1, y2 = y2, y1
        return {"type": "RectangularRegion", "id": d.get("id"), "x1": x1, "y1": y1, "x2": x2, "y2": y2}
    return {"type": d.get("type"), "id": d.get("id"),
            "cx": _num(d.get("cx", 0)), "cy": _num(d.get("cy", 0)), "r": _num(d.get("r", 0))}


def depth(reg, x, y):
    """Signed depth of (x,y) inside reg: > 0 inside, < 0 outside (|.| is a lower bound of the distance)."""
    if reg["type"] == "RectangularRegion":
        vals = (reg["x1"], reg["x2"], reg["y1"], reg["y2"])
        if any(v != v for v in vals):
            return -math.inf        # a not-a-number edge: every comparison fails, the region contains nothing
        return min(x - reg["x1"], reg["x2"] - x, y - reg["y1"], reg["y2"] - y)
    if reg["r"] != reg["r"] or reg["cx"] != reg["cx"] or reg["cy"] != reg["cy"]:
        return -math.inf
    return reg["r"] - math.hypot(x - reg["cx"], y - reg["cy"])


def _exact_member(reg, x, y):
    """Closed membership decided exactly (all inputs are exactly representable doubles)."""
    if reg["type"] == "RectangularRegion":
        return reg["x1"] <= x <= reg["x2"] and reg["y1"] <= y <= reg["y2"]
    if reg["r"] != reg["r"] or reg["cx"] != reg["cx"] or reg["cy"] != reg["cy"]:
        return False
    dx, dy, r = Fraction(x) - Fraction(reg["cx"]), Fraction(y) - Fraction(reg["cy"]), Fraction(reg["r"])
    if r < 0:
        return False
    return dx * dx + dy * dy <= r * r


def _circle_float_exact(reg, x, y):
    """True iff the floating point evaluation r >= hypot(x-cx, y-cy) involves no rounding at all:
    both subtractions are exact and one of them is 0 (so hypot returns the other's magnitude)."""
    dx, dy = x - reg["cx"], y - reg["cy"]
    if Fraction(dx) != Fraction(x) - Fraction(reg["cx"]) or Fraction(dy) != Fraction(y) - Fraction(reg["cy"]):
        return False
    return dx == 0 or dy == 0


def member3(regions, x, y, exact=False):
    """IN / OUT / AMBIG for a point against a list of region dicts (closed regions).

    exact frame: rectangle tests are exact; circle tests are decided by sign unless the point is within
    1e-9 of the border; there only if the float evaluation involves no rounding, else AMBIG.
    otherwise: AMBIG when within DELTA of any border.
    """
    res = OUT
    for reg in regions:
        d = depth(reg, x, y)
        if exact:
            if reg["type"] == "RectangularRegion":
                if _exact_member(reg, x, y):
                    return IN
            else:
                if abs(d) > 1e-9:
                    if d > 0:
                        return IN
                elif _circle_float_exact(reg, x, y):
                    if _exact_member(reg, x, y):
                        return IN
                else:
                    res = AMBIG
        else:
            if d > DELTA:
                return IN
            if d >= -DELTA:
                res = AMBIG
    return res


def arc_class(regions, pts, spacing, unit):
    """DEEP(IN) / CLEAR(OUT) / AMBIG for the true arc given by dense points `pts` (spacing mm apart).

    DEEP: some arc point is deeper than half a logical unit + DELTA inside a region, so any sampling of
    that circle with spacing <= 1 unit must have a sample inside (C16's consequence clause, assumed).
    CLEAR: the whole arc stays >= DELTA outside every region.
    """
    if not regions:
        return OUT
    best = -1e300       # over the whole arc
    best_tail = -1e300  # over the points at least half a unit (arc length) away from the start: the start
    #                     point is where the tool already is, it is not sampled, and a point closer than
    #                     half a unit to it may be farther than half a unit from the first sample
    for reg in regions:
        for (x, y, s) in pts:
            d = depth(reg, x, y)
            if d > best:
                best = d
            if s >= 0.5 * unit and d > best_tail:
                best_tail = d
    if best_tail > 0.5 * unit + DELTA:
        return IN
    if best + spacing / 2.0 < -DELTA:
        return OUT
    return AMBIG


# ---------------------------------------------------------------------------------------------------
# Registry model (C12/C13): ordered list of region dicts with the acceptance rules of the API
# ---------------------------------------------------------------------------------------------------
class RegistryModel(object):
    def __init__(self):
        self.regions = []

    def ids(self):
        return [r["id"] for r in self.regions]

    def index(self, rid):
        for i, r in enumerate(self.regions):
            if r["id"] == rid:
                return i
        return -1

    def clear(self):
        changed = True  # a notification is sent whenever the list is cleared by an event
        self.regions = []
        return changed


# ---------------------------------------------------------------------------------------------------
# @-command model (C14)
# ---------------------------------------------------------------------------------------------------
class AtModel(object):
    """Which configured action (if any) an @-command triggers; own regex matching."""

    def __init__(self, actions):
        self.set_actions(actions)

    def set_actions(self, actions):
        """All or nothing, like the plugin's settings handler: an entry that cannot be constructed (no command,
        unknown action, a pattern that is not a regular expression) makes the whole update fail."""
        new = []
        for a in actions:
            if not a.get("command") or a.get("action") not in ("enable_exclusion", "disable_exclusion"):
                raise ValueError("unconstructible @-action %r" % (a,))
            if a.get("parameterPattern") is not None:
                re.compile(a["parameterPattern"])
            new.append((a["command"], a.get("parameterPattern"), a["action"]))
        self.actions = new

    def match(self, command, parameters):
        hits = []
        for c, pat, act in self.actions:
            if c == command and (pat is None or re.match(pat, parameters or "")):
                hits.append(act)
        return hits


def split_at(line):
    """OctoPrint's way of splitting an @ line: (command without '@', parameters)."""
    parts = line.split(None, 1)
    return parts[0][1:], (parts[1] if len(parts) == 2 else "")


# ---------------------------------------------------------------------------------------------------
# Deferral model (C06)
# ---------------------------------------------------------------------------------------------------
_PARAM = re.compile(r"\s*([A-Za-z])\s*([-+]?(?:\d+\.?\d*|\.\d+))?")


def simple_params(cmd):
    """letter -> float for a command made only of letter/number words (merge-mode codes)."""
    m = re.match(r"\s*[GMTgmt]\s*\d+(?:\.\d+)?", cmd)
    out = OrderedDict()
    for w in _PARAM.finditer(cmd[m.end():] if m else cmd):
        if w.group(0).strip() == "":
            continue
        out[w.group(1).upper()] = None if w.group(2) is None else float(w.group(2))
    return out


class DeferralModel(object):
    """exclude / first / last / merge exactly as the README describes."""

    def __init__(self, modes):
        self.modes = dict(modes)  # gcode -> mode
        self.pending = OrderedDict()

    def set_modes(self, modes):
        self.modes = dict(modes)

    def offer(self, gcode, cmd):
        """A configured code arrives during an episode. Returns True if it is withheld."""
        mode = self.modes.get(gcode)
        if mode is None:
            return False
        if mode == "exclude":
            return True
        if mode == "first":
            if gcode not in self.pending:
                self.pending[gcode] = ("text", cmd)
        elif mode == "last":
            self.pending.pop(gcode, None)
            self.pending[gcode] = ("text", cmd)
        elif mode == "merge":
            old = self.pending.pop(gcode, None)
            args = old[1] if (old is not None and old[0] == "merge") else OrderedDict()
            for k, v in simple_params(cmd).items():
                args[k] = v
            self.pending[gcode] = ("merge", args)
        return True

    def flush(self):
        out = []
        for gcode, (kind, val) in self.pending.items():
            out.append((gcode, kind, val))
        self.pending = OrderedDict()
        return out

    def discard(self):
        self.pending = OrderedDict()


def split_script(text):
    """Reference splitting of an enter/exit script setting: lines, comments and blanks removed."""
    if text is None:
        return None
    out = []
    for line in re.split(r"\r\n|\r|\n", text):
        i = line.find(";")
        if i >= 0:
            line = line[:i]
        line = line.strip()
        if line:
            out.append(line)
    return out or None


# ---------------------------------------------------------------------------------------------------
# Lifecycle model (C11)
# ---------------------------------------------------------------------------------------------------
END_EVENTS = ("PrintDone", "PrintFailed", "PrintCancelling", "PrintCancelled", "Error")


class LifecycleModel(object):
    def __init__(self):
        self.active = False
        self.clear_after = False       # as last *delivered* to the plugin
        self.may_shrink = False

    def on_event(self, event):
        """Returns 'cleared' if the region list must be emptied by this event."""
        if event == "FileSelected":
            return "cleared"
        if event == "PrintStarted":
            self.active = True
        elif event in END_EVENTS:
            self.active = False
            if self.clear_after:
                return "cleared"
        return None
