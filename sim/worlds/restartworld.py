"""C10 world: crash-and-restart shape.  Phase 1 drives a plugin through an arbitrary history (prints cut at any
point, aborts mid-episode, disabled exclusion, pending deferred commands, owed recoveries, unit/mode changes,
adversarial bus, API and settings traffic).  Then PRINT_STARTED is delivered; a *fresh* plugin is built on the
same settings store with copies of the current regions and gets PRINT_STARTED as well.  Phase 2 is one schedule
applied to both; every observable output must be identical step by step (durable state = regions + settings)."""
from __future__ import annotations

import hashlib
import json
from collections import Counter

import flask

from .. import seams
from ..seams import Events
from ..host import SimComm, SimBus
from .printworld import PrintWorld, Violation

_APP = flask.Flask("verif-sim-restart")


class Side(object):
    """One plugin with its own stub comm / bus, observed through its outputs only."""

    def __init__(self, plugin):
        self.plugin = plugin
        self.obs = []
        self.comm = SimComm(plugin, on_call=self.on_call)
        self.bus = SimBus(plugin, on_deliver=self.on_deliver)
        self.comm.printing = True
        self.msgs_seen = len(plugin._plugin_manager.messages)

    def on_call(self, call):
        self.obs.append(["call", call.src, call.cmd, repr(call.raw), call.exc, call.at_exc, list(call.wire),
                         list(call.sent)])

    def on_deliver(self, ev, exc):
        self.obs.append(["ev", ev, exc])

    def take(self):
        m = self.plugin._plugin_manager.messages
        new = m[self.msgs_seen:]
        self.msgs_seen = len(m)
        o = self.obs + [["msg", x] for x in new]
        self.obs = []
        return o

    def apply(self, op, shared_done):
        k = op["op"]
        if k == "line":
            if self.comm.printing:
                self.comm.send_file_line(op["text"])
            else:
                self.comm.sendCommand(op["text"], src="terminal")
        elif k == "terminal":
            self.comm.sendCommand(op["text"], src="terminal")
        elif k == "pump":
            self.comm.pump()
        elif k == "api":
            seams.USER.anon = bool(op.get("anon"))
            if op.get("auto_id") is not None:
                seams.UUID.n = op["auto_id"]
            try:
                res = self.plugin.on_api_command(op["cmd"], dict(op["data"]))
            except Exception as ex:
                res = "EXC %s: %s" % (type(ex).__name__, ex)
            seams.USER.anon = False
            self.obs.append(["api", repr(res)])
        elif k == "api_get":
            with _APP.app_context():
                self.obs.append(["get", self.plugin.on_api_get(None).get_json()])
        elif k == "event":
            self.bus.fire(op["name"])
            self.bus.deliver_all()
            if op["name"] == Events.PRINT_STARTED:
                self.comm.printing = True
            elif op["name"] in ("PrintDone", "PrintFailed", "PrintCancelled", "Error"):
                self.comm.printing = False
        elif k == "settings":
            self.bus.fire(Events.SETTINGS_UPDATED)
            self.bus.deliver_all()
        elif k == "script_hook":
            try:
                ret = self.plugin.handleScriptHook(self.comm, op.get("type", "gcode"), op["name"])
            except Exception as ex:
                ret = "EXC %s: %s" % (type(ex).__name__, ex)
            self.obs.append(["script", repr(ret)])
        elif k == "print_done":
            self.comm.pump()
            self.comm.sendCommand("M400", part_of_job=True, src="script")
            self.bus.fire(Events.PRINT_DONE)
            if not op.get("hook_first", True):
                self.bus.deliver_all()
            ret, exc, lines = self.comm.script("afterPrintDone", ())
            self.obs.append(["script", repr(ret), exc])
            self.comm.pump()
            self.comm.printing = False
            self.bus.deliver_all()
        elif k == "sd_stream":
            self.comm.streaming = bool(op["on"])
        elif k in ("clock", "logfail", "deliver", "bus", "pause", "resume", "abort", "print_start"):
            pass
        else:
            raise KeyError(k)


class RestartWorld(object):
    def __init__(self, cfg):
        self.cfg = cfg
        self.viol = None
        self.stats = Counter()
        self.abs_states = set()
        self.log = []
        self.ncalls = 0

    def digest(self):
        return hashlib.sha256(json.dumps(self.log, sort_keys=True, default=str).encode()).hexdigest()

    def run(self, schedule):
        cut = next(i for i, op in enumerate(schedule) if op["op"] == "restart")
        phase1, phase2 = schedule[:cut], schedule[cut + 1:]
        # ---- phase 1: arbitrary history on the plugin that will be "used"
        a = PrintWorld(self.cfg, set())
        try:
            a.run(phase1)
        except Violation:
            pass
        self.stats.update({k: v for k, v in a.stats.items() if k.startswith(("fault:", "probe:", "op:"))})
        st = a.plugin.state
        lr = st.lastRetraction
        hist = (a.life.active, st.excluding, st._exclusionEnabled,
                None if lr is None else (lr.firmwareRetract, lr.recoverExcluded), bool(st.pendingCommands),
                st.position.X_AXIS.absoluteMode, st.position.X_AXIS.unitMultiplier, st.position.X_AXIS.current is None,
                min(len(st.excludedRegions), 2))
        self.abs_states.add(hist)
        for name, cond in (("mid_episode", st.excluding), ("disabled", not st._exclusionEnabled),
                           ("owed_recovery", lr is not None and lr.recoverExcluded),
                           ("retraction_recorded", lr is not None), ("pending_deferred", bool(st.pendingCommands)),
                           ("relative", not st.position.X_AXIS.absoluteMode),
                           ("inch", st.position.X_AXIS.unitMultiplier != 1.0), ("was_active", a.life.active),
                           ("undelivered_events", bool(a.bus.queue))):
            if cond:
                self.stats["probe:restart_with_" + name] += 1
        self.log.append(["history", list(map(str, hist)), a.digest()])
        # ---- the restart: pending events first (so both sides mean the same by "the settings"), then PRINT_STARTED
        a.bus.on_deliver = None
        a.bus.deliver_all()
        a.comm.command_queue.clear()
        a.comm.job_queue.clear()
        used = Side(a.plugin)
        fresh_plugin = seams.make_plugin(self.cfg.get("log", "off"))
        for r in a.plugin.state.excludedRegions:
            fresh_plugin.state.excludedRegions.append(type(r)(r))
        fresh = Side(fresh_plugin)
        used.take()
        fresh.take()
        for side in (used, fresh):
            side.bus.fire(Events.PRINT_STARTED)
            side.bus.deliver_all()
            side.take()
        # ---- phase 2
        for i, op in enumerate(phase2):
            self.stats["op2:" + op["op"]] += 1
            if op["op"] == "settings":
                for key, v in op["set"].items():
                    if key == "g90e":
                        seams.set_g90_influences_extruder(v)
                    else:
                        seams.SETTINGS.set(["plugins", "excluderegion", key], v, force=True)
            used.apply(op, False)
            fresh.apply(op, True)
            ou, of = used.take(), fresh.take()
            self.ncalls += len(ou)
            self.log.append(["op", i, op["op"], ou])
            if ou != of:
                first = next((j for j in range(min(len(ou), len(of))) if ou[j] != of[j]), min(len(ou), len(of)))
                self.viol = {"property": "C10", "clause": "C10.differs", "op": cut + 1 + i,
                             "message": "after print-started, op %r: used plugin produced %r, a fresh plugin with "
                                        "the same regions and settings produced %r (history state: active=%s "
                                        "excluding=%s enabled=%s retraction=%s pending=%s abs=%s unit=%s)"
                                        % ((op, ou[first] if first < len(ou) else None,
                                            of[first] if first < len(of) else None) + hist[:7])}
                break
        return self.viol
