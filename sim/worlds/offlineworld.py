"""C20 world: the offline StreamProcessor against (1) a twin GcodeHandlers on an equal state fed what the live
hooks would get for the same lines, (2) byte-level rules for untouched lines and line endings, (3) isolation
from the live plugin (state snapshot unchanged by offline steps; live outputs equal to a control run without
the uploader)."""
from __future__ import annotations

import copy
import hashlib
import io
import json
import re
from collections import Counter

from .. import seams
from ..host import process_gcode_line, gcode_and_subcode_for_cmd
from ..models import split_at
from .printworld import PrintWorld, Violation, state_snapshot

SP = seams._SP_mod
GH = seams._GH_mod
ERS = seams._ERS_mod


_CANON = re.compile(r"^([GMT])\s*0*(\d+)(?:\.(\d+))?\s*(.*)$")


def canon(cmd):
    """Canonical form of a command for sequence comparison: code letter + number (no leading zeros) [.sub],
    one blank, parameters as written (the stream processor re-assembles the command from its parse, the live
    path forwards the text as it is: `G1Z.3F3000` and `G1 Z.3F3000` are the same command)."""
    m = _CANON.match(cmd)
    if not m:
        return cmd
    head = m.group(1) + m.group(2) + ("." + m.group(3) if m.group(3) is not None else "")
    return (head + " " + m.group(4).strip()).strip()


class RecComm(object):
    def __init__(self):
        self.sent = []

    def isStreaming(self):
        return False

    def sendCommand(self, cmd, **kw):
        if cmd is not None:
            self.sent.append(cmd)


class OffViolation(BaseException):
    pass


class OfflineWorld(object):
    def __init__(self, cfg, with_uploader=True):
        self.cfg = cfg
        self.with_uploader = with_uploader
        self.live = PrintWorld(cfg, set())
        self.proc = None
        self.twin = None
        self.viol = None
        self.stats = Counter()
        self.abs_states = set()
        self.op_index = -1
        self.off_log = []
        self.ncalls = 0
        self.eol_seen = None

    def fail(self, clause, msg):
        if self.viol is None:
            self.viol = {"property": "C20", "clause": "C20." + clause, "op": self.op_index, "message": msg}
            raise OffViolation()

    def live_digest(self):
        return self.live.digest()

    def digest(self):
        return hashlib.sha256(json.dumps([self.live.log, self.off_log], sort_keys=True, default=str).encode()).hexdigest()

    def run(self, schedule):
        try:
            for i, op in enumerate(schedule):
                self.op_index = i
                k = op["op"]
                if k.startswith("upload"):
                    if self.with_uploader:
                        self.stats["op:" + k] += 1
                        self.upload(op)
                else:
                    try:
                        self.live.op_index = i
                        self.live.step(op)
                    except Violation:
                        pass
        except OffViolation:
            pass
        return self.viol

    # ------------------------------------------------------------------------------------------------------
    def upload(self, op):
        k = op["op"]
        live_state = self.live.plugin.state
        before = state_snapshot(live_state)
        if k == "upload_new":
            self.proc = SP.StreamProcessor(io.BytesIO(b""), self.live.plugin.gcodeHandlers)
            # the twin: an equal state of its own - built by the class's constructor (whatever the constructor wires
            # up belongs to the twin) and loaded with a deep copy of the live state's data
            tstate = ERS.ExcludeRegionState(self.live.plugin._logger)
            memo = {}
            for name, value in live_state.__dict__.items():
                if not callable(value):
                    # attribute by attribute (one memo, so that objects shared between attributes stay shared):
                    # independent of how the state class itself chooses to be copied
                    tstate.__dict__[name] = copy.deepcopy(value, memo)
            self.twin = GH.GcodeHandlers(tstate, self.live.plugin._logger)
            self.eol_seen = None
            st = live_state
            lr = st.lastRetraction
            self.abs_states.add(("snapshot", self.live.life.active, st.excluding, st._exclusionEnabled,
                                 None if lr is None else (lr.firmwareRetract, lr.recoverExcluded),
                                 bool(st.pendingCommands), st.position.X_AXIS.absoluteMode,
                                 st.position.X_AXIS.unitMultiplier, st.position.X_AXIS.current is None))
            for name, cond in (("mid_episode", st.excluding), ("disabled", not st._exclusionEnabled),
                               ("owed_recovery", lr is not None and lr.recoverExcluded),
                               ("relative", not st.position.X_AXIS.absoluteMode),
                               ("inch", st.position.X_AXIS.unitMultiplier != 1.0),
                               ("active_print", self.live.life.active),
                               ("unhomed", st.position.X_AXIS.current is None)):
                if cond:
                    self.stats["probe:snapshot_" + name] += 1
        elif k == "upload_abandon":
            self.proc = None
            self.twin = None
            self.stats["fault:upload_abandon"] += 1
        elif k == "upload_line":
            if self.proc is not None:
                self.offline_line(op["text"])
        if state_snapshot(live_state) != before:
            self.fail("isolation", "offline step %r changed the live plugin's state" % (op,))

    def offline_line(self, line):
        """line = text including its terminator (or none for a last / torn line)."""
        self.ncalls += 1
        eol = ""
        for e in ("\r\n", "\n", "\r"):
            if line.endswith(e):
                eol = e
                break
        if eol and self.eol_seen is None:
            self.eol_seen = eol
        file_eol = self.eol_seen or "\n"
        if not eol:
            self.stats["fault:no_final_eol"] += 1
        # ---- offline
        try:
            out = self.proc.process_line(line)
            oexc = None
        except Exception as ex:
            out, oexc = None, "%s: %s" % (type(ex).__name__, ex)
        # ---- what the live hooks would do with this line, on the twin
        cmd = process_gcode_line(line)
        texc = None
        expect = None      # expected command sequence
        unchanged = False  # the live path leaves the line alone
        kind = "blank"
        if cmd is None:
            unchanged = True
            expect = []
        else:
            gcode, subcode = gcode_and_subcode_for_cmd(cmd)
            if gcode is None and cmd.startswith("@"):
                kind = "at"
                c, p = split_at(cmd)
                comm = RecComm()
                try:
                    handled = self.twin.handleAtCommand(comm, c, p)
                except Exception as ex:
                    handled, texc = False, "%s: %s" % (type(ex).__name__, ex)
                expect = list(comm.sent)
                unchanged = not handled
            elif gcode is None:
                kind = "unclassified"
                unchanged = True
                expect = [cmd]
            else:
                kind = "gcode"
                try:
                    res = self.twin.handleGcode(cmd, gcode, subcode)
                except Exception as ex:
                    res, texc = None, "%s: %s" % (type(ex).__name__, ex)
                if res is None:
                    unchanged = True
                    expect = [cmd]
                elif isinstance(res, tuple):
                    expect = [x for x in res[:1] if x is not None]
                else:
                    expect = [x for x in res if x is not None]
        self.off_log.append([line, out, oexc, texc])
        self.stats["probe:line_" + kind] += 1
        self.abs_states.add(("line", kind, unchanged, out is None, self.proc.gcodeHandlers.state.excluding,
                             bool(eol)))
        if (oexc is None) != (texc is None):
            self.fail("raise", "line %r: offline %s, live path on an equal state %s"
                      % (line, "raised " + oexc if oexc else "did not raise", "raised " + texc if texc else
                         "did not raise"))
        if oexc is not None:
            self.stats["both_raised"] += 1
            return
        # (2) byte-level rules
        if out is not None:
            if not isinstance(out, str):
                self.fail("type", "process_line(%r) returned %r" % (line, out))
            if eol and not out.endswith(file_eol):
                self.fail("eol", "line %r came back as %r: not terminated by the file's line ending %r"
                          % (line, out, file_eol))
            if eol or self.eol_seen is not None:
                # (also for an unterminated last line: what is generated from it is terminated like the file)
                rest = out.replace(file_eol, "")
                if "\r" in rest or "\n" in rest:
                    self.fail("eol_inner", "line %r came back as %r: an emitted line is not terminated by the file's "
                              "line ending %r" % (line, out, file_eol))
                if out.count(file_eol) > 1:
                    self.stats["probe:multi_line_output"] += 1
        if unchanged:
            if out != line:
                self.fail("unchanged", "the live path leaves %r alone (kind=%s) but the stream processor returned %r"
                          % (line, kind, out))
            self.stats["probe:unchanged_line"] += 1
            return
        # (1) same command sequence
        got = []
        if out is not None:
            body = out
            for piece in body.replace("\r\n", "\n").replace("\r", "\n").split("\n"):
                c = process_gcode_line(piece)
                if c:
                    got.append(c)
        want = [process_gcode_line(x) for x in expect]
        want = [x for x in want if x]
        got_c = [canon(x) for x in got if not x.startswith("@")]
        want_c = [canon(x) for x in want if not x.startswith("@")]
        if got_c != want_c:
            self.fail("sequence", "line %r: stream processor emits %r, the live hooks would send %r"
                      % (line, got_c, want_c))
        if len(want_c) != 1 or want_c[0] != canon(cmd):
            self.stats["probe:altered_line"] += 1
        if not want_c:
            self.stats["probe:dropped_line"] += 1
