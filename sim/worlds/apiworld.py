"""API world (C12, C13): request sequences against the real plugin, interleaved with lifecycle events and
setting flips, checked against a registry model (C13) and a witness-point monotonicity oracle (C12)."""
from __future__ import annotations

import hashlib
import json
import math
from collections import Counter

import flask

from .. import seams
from ..seams import Events
from ..host import SimBus
from ..models import norm_region, LifecycleModel, depth

_APP = flask.Flask("verif-sim-api")


def ref_contains(new, old):
    """Reference containment (closed sets), used only with clear margins (C13 generator) ."""
    if new["type"] == "RectangularRegion":
        if old["type"] == "RectangularRegion":
            return (old["x1"] >= new["x1"] and old["x2"] <= new["x2"] and
                    old["y1"] >= new["y1"] and old["y2"] <= new["y2"])
        return (old["cx"] - old["r"] >= new["x1"] and old["cx"] + old["r"] <= new["x2"] and
                old["cy"] - old["r"] >= new["y1"] and old["cy"] + old["r"] <= new["y2"])
    if old["type"] == "RectangularRegion":
        return all(math.hypot(x - new["cx"], y - new["cy"]) <= new["r"]
                   for x in (old["x1"], old["x2"]) for y in (old["y1"], old["y2"]))
    return math.hypot(new["cx"] - old["cx"], new["cy"] - old["cy"]) + old["r"] <= new["r"]


def witnesses(reg, pull):
    """Points of the closed region `reg` (dict), pulled `pull` inside where that is meaningful."""
    pts = []
    if reg["type"] == "RectangularRegion":
        x1, y1, x2, y2 = reg["x1"], reg["y1"], reg["x2"], reg["y2"]
        xs = [x1 + pull, (x1 + x2) / 2.0, x2 - pull] if x2 - x1 > 2 * pull else [x1, x2]
        ys = [y1 + pull, (y1 + y2) / 2.0, y2 - pull] if y2 - y1 > 2 * pull else [y1, y2]
        for x in xs + [x1 + (x2 - x1) * 0.25, x1 + (x2 - x1) * 0.9]:
            for y in ys + [y1 + (y2 - y1) * 0.3, y1 + (y2 - y1) * 0.75]:
                pts.append((x, y))
    else:
        cx, cy, r = reg["cx"], reg["cy"], abs(reg["r"])   # a negative radius excludes nothing; should a change
        #                                                    make it exclude the disc |r|, these are its points
        pts.append((cx, cy))
        if r > 0:
            rr = max(r - pull, 0.0)
            for k in range(64):
                a = 2 * math.pi * k / 64
                pts.append((cx + rr * math.cos(a), cy + rr * math.sin(a)))
            for k in range(16):
                a = 2 * math.pi * (k + 0.5) / 16
                pts.append((cx + 0.5 * r * math.cos(a), cy + 0.5 * r * math.sin(a)))
            if pull == 0.0:
                pts += [(cx - r, cy), (cx + r, cy), (cx, cy - r), (cx, cy + r)]
    return pts


class _Comm(object):
    def __init__(self):
        self.sent = []

    def isStreaming(self):
        return False

    def sendCommand(self, cmd, **kw):
        self.sent.append(cmd)


class ApiViolation(BaseException):
    pass


class ApiWorld(object):
    def __init__(self, cfg, prop):
        self.cfg = cfg
        self.prop = prop
        seams.reset_run_globals()
        for k, v in (cfg.get("settings") or {}).items():
            seams.SETTINGS.set(["plugins", "excluderegion", k], v, force=True)
        self.plugin = seams.make_plugin(cfg.get("log", "off"))
        self.bus = SimBus(self.plugin, on_deliver=self.on_deliver)
        self.life = LifecycleModel()
        self.life.clear_after = bool(self.plugin._settings.get_boolean(["clearRegionsAfterPrintFinishes"]))
        self.life.may_shrink = bool(self.plugin._settings.get_boolean(["mayShrinkRegionsWhilePrinting"]))
        self.model = []          # registry model: list of normalised dicts
        self.msgs_seen = len(self.plugin._plugin_manager.messages)
        self.viol = None
        self.log = []
        self.stats = Counter()
        self.abs_states = set()
        self.op_index = -1
        self.auto = 0
        self._invalid_settings = False
        self.comm = _Comm()

    def fail(self, clause, msg):
        if self.viol is None:
            self.viol = {"property": self.prop, "clause": self.prop + "." + clause, "op": self.op_index,
                         "message": msg}
            raise ApiViolation()

    def digest(self):
        return hashlib.sha256(json.dumps(self.log, sort_keys=True, default=str).encode()).hexdigest()

    # ---------------------------------------------------------------------------------------------
    def in_excluded_area(self, x, y):
        """Membership in the currently defined excluded area (whether or not exclusion is switched on by an
        @-command at the moment: the area is what C12 protects)."""
        return any(r.containsPoint(x, y) for r in self.plugin.state.excludedRegions)

    def plugin_list(self):
        with _APP.app_context():
            got = self.plugin.on_api_get(None).get_json()
        return got["excluded_regions"]

    def new_messages(self):
        m = self.plugin._plugin_manager.messages
        new = m[self.msgs_seen:]
        self.msgs_seen = len(m)
        return new

    def on_deliver(self, ev, exc):
        before = [dict(r) for r in self.model]
        if ev == Events.SETTINGS_UPDATED:
            # the stored flags as the host itself reads a boolean setting ("false", "no", 0 ... are off)
            self.life.clear_after = bool(self.plugin._settings.get_boolean(["clearRegionsAfterPrintFinishes"]))
            self.life.may_shrink = bool(self.plugin._settings.get_boolean(["mayShrinkRegionsWhilePrinting"]))
        if self.life.on_event(ev) == "cleared":
            self.model = []
            self.stats["probe:cleared_by_" + ev] += 1
        self.log.append(["ev", ev, exc])
        if exc is not None:
            if ev == Events.SETTINGS_UPDATED and self._invalid_settings:
                self.stats["probe:settings_update_raised_on_invalid_entry"] += 1   # the host logs it and goes on
            else:
                self.fail("event_raise", "event %s raised %s" % (ev, exc))
        self.check_registry("event %s" % ev, before, changed_by_event=(before != self.model))

    # ---------------------------------------------------------------------------------------------
    def check_registry(self, what, before_model, changed_by_event=False, expect_status="skip", got_status=None):
        """C13 clauses after a step."""
        new = self.new_messages()
        lst = self.plugin_list()
        cur = [norm_region(d) for d in lst]
        if self.prop == "C13":
            for d in lst:
                want = {"RectangularRegion": {"type", "id", "x1", "y1", "x2", "y2"},
                        "CircularRegion": {"type", "id", "cx", "cy", "r"}}.get(d.get("type"))
                if want is not None and set(d.keys()) != want:
                    self.fail("payload_keys", "after %s the GET response describes a region as %r" % (what, d))
            for m in new:
                if m[1].get("excluded_regions") != lst:
                    self.fail("notify_payload", "after %s a notification carried %r but GET returns %r"
                              % (what, m[1].get("excluded_regions"), lst))
            ids = [d["id"] for d in lst]
            if len(set(ids)) != len(ids):
                self.fail("unique", "after %s region ids are not unique: %r" % (what, ids))
            if cur != self.model:
                self.fail("list", "after %s the region list is %r, the model says %r" % (what, cur, self.model))
            if expect_status != "skip" and got_status != expect_status:
                self.fail("status", "%s answered %r, the model predicts %r" % (what, got_status, expect_status))
            changed = (before_model != self.model)
            payloads = [[norm_region(d) for d in m[1].get("excluded_regions", [])] for m in new]
            for m in new:
                if m[0] != "excluderegion" or m[1].get("event") != "ExcludedRegionsChanged":
                    self.fail("notify_shape", "unexpected plugin message %r" % (m,))
            if changed:
                if len(new) != 1:
                    self.fail("notify_count", "%s changed the region list but %d notifications were sent"
                              % (what, len(new)))
            for p in payloads:
                if p != cur:
                    self.fail("notify_payload", "after %s a notification carried %r but the list is %r"
                              % (what, p, cur))
        return cur

    # ---------------------------------------------------------------------------------------------
    def run(self, schedule):
        try:
            for i, op in enumerate(schedule):
                self.op_index = i
                self.step(op)
        except ApiViolation:
            pass
        return self.viol

    def step(self, op):
        k = op["op"]
        self.stats["op:" + k] += 1
        if k == "event":
            self.bus.fire(op["name"], op.get("payload"))
            self.bus.deliver_all()
        elif k == "settings":
            for key, v in op["set"].items():
                seams.SETTINGS.set(["plugins", "excluderegion", key], v, force=True)
            # the undigestible entry stays in the stored settings, so later updates raise as well
            self._invalid_settings = self._invalid_settings or bool(op.get("invalid"))
            if op.get("invalid"):
                self.stats["fault:settings_invalid_entry"] += 1
            self.bus.fire(Events.SETTINGS_UPDATED)
            self.bus.deliver_all()
            self.stats["fault:settings_flip"] += 1
        elif k == "at":
            # an @-command of the running job passes through the hook (it may switch exclusion off and on)
            before = [dict(r) for r in self.model]
            try:
                self.plugin.handleAtCommandQueuing(self.comm, "queuing", op["cmd"], op["params"], tags=set())
            except Exception as ex:
                self.log.append(["at_exc", str(ex)])
            self.stats["fault:at_command"] += 1
            self.check_registry("@%s %s" % (op["cmd"], op["params"]), before)
        elif k == "gcode":
            # job traffic through the queuing hook: must never change the registry or its order
            from octoprint.util.comm import gcode_and_subcode_for_cmd
            before = [dict(r) for r in self.model]
            g, sc = gcode_and_subcode_for_cmd(op["text"])
            try:
                self.plugin.handleGcodeQueuing(self.comm, "queuing", op["text"], None, g, subcode=sc, tags=set())
            except Exception as ex:
                self.log.append(["gcode_exc", str(ex)])
            self.stats["fault:job_traffic"] += 1
            self.check_registry("gcode %s" % op["text"], before)
        elif k == "api_get":
            before = [dict(r) for r in self.model]
            self.check_registry("GET", before)
        elif k == "api":
            self.api(op)
        else:
            raise KeyError(k)
        self.abs_states.add((self.life.active, self.life.may_shrink, self.life.clear_after,
                             min(len(self.model), 3), k, op.get("cmd"), op.get("kind")))

    def predict(self, op):
        """RegistryModel: (status, new_model). status None = success."""
        cmd, data = op["cmd"], op["data"]
        model = [dict(r) for r in self.model]
        if op.get("anon"):
            return ("Insufficient rights", 403), model
        restricted = self.life.active and not self.life.may_shrink
        if cmd == "deleteExcludeRegion":
            if restricted:
                return ("Cannot delete region while printing", 409), model
            rid = data.get("id")
            return None, [r for r in model if r["id"] != rid] if any(r["id"] == rid for r in model) else model
        if data.get("type") not in ("RectangularRegion", "CircularRegion"):
            return ("Invalid type", 400), model
        d = dict(data)
        if d.get("id") is None:
            d["id"] = "auto-%06d" % (op.get("auto_id", 0) + 1)
        new = norm_region(d)
        idx = next((i for i, r in enumerate(model) if r["id"] == new["id"]), -1)
        if cmd == "addExcludeRegion":
            if idx >= 0:
                return ("Region id collision", 409), model
            return None, model + [new]
        if cmd == "updateExcludeRegion":
            if data.get("id") is None:
                return ("id is required for new region", 409), model
            if idx < 0:
                return ("Specified region not found", 409), model
            if restricted and not ref_contains(new, model[idx]):
                return ("The updated region must completely contain the original area", 409), model
            model[idx] = new
            return None, model
        return ("Invalid command", 400), model

    def api(self, op):
        restricted = self.life.active and not self.life.may_shrink
        st = self.plugin.state
        before_model = [dict(r) for r in self.model]
        before_list = self.plugin_list()
        wit = []
        if self.prop == "C12" and restricted:
            for r in before_list:
                nr = norm_region(r)
                scale = max(1.0, abs(nr.get("x1", 0)), abs(nr.get("x2", 0)), abs(nr.get("y1", 0)),
                            abs(nr.get("y2", 0)), abs(nr.get("cx", 0)), abs(nr.get("cy", 0)), abs(nr.get("r", 0)))
                involves_circle = (nr["type"] == "CircularRegion" or op["data"].get("type") == "CircularRegion")
                pull = 1e-9 * scale if involves_circle else 0.0
                for (x, y) in witnesses(nr, pull):
                    if self.in_excluded_area(x, y):
                        wit.append((x, y))
            self.stats["witness_points"] += len(wit)
        seams.USER.anon = bool(op.get("anon"))
        if op.get("auto_id") is not None:
            seams.UUID.n = op["auto_id"]
        data = dict(op["data"])
        data["command"] = op["cmd"]
        exc = None
        try:
            res = self.plugin.on_api_command(op["cmd"], data)
        except Exception as ex:
            res = None
            exc = "%s: %s" % (type(ex).__name__, ex)
        seams.USER.anon = False
        got = "EXC" if exc else (None if res is None else (res[0], res[1]))
        self.log.append(["api", op["cmd"], op["data"], bool(op.get("anon")), got, exc])
        self.stats["req:" + op.get("kind", "?")] += 1
        if self.prop == "C13":
            if exc is not None:
                # the request was rejected with a server error: the list must be untouched
                self.stats["probe:request_raised"] += 1
                self.check_registry("%s %r (raised %s)" % (op["cmd"], op["data"], exc), before_model)
                return
            status, new_model = self.predict(op)
            self.model = new_model
            if status is not None:
                self.stats["probe:rejected_%s" % status[1]] += 1
            else:
                self.stats["probe:accepted_" + op["cmd"]] += 1
            self.check_registry("%s %r" % (op["cmd"], op["data"]), before_model,
                                expect_status=(None if status is None else status), got_status=got)
        else:
            after_list = self.plugin_list()
            self.new_messages()
            if got is not None and after_list != before_list:
                self.fail("refused_changed", "%s %r was answered %r but the region list changed from %r to %r"
                          % (op["cmd"], op["data"], got, before_list, after_list))
            if restricted:
                self.stats["probe:restricted_request"] += 1
                if op["cmd"] == "deleteExcludeRegion" and not op.get("anon") and got is None:
                    self.fail("delete", "delete of %r during an active print (shrinking not allowed) was "
                              "accepted" % (op["data"],))
                if got is None:
                    self.stats["probe:restricted_accepted"] += 1
                else:
                    self.stats["probe:restricted_refused"] += 1
                for (x, y) in wit:
                    if not self.in_excluded_area(x, y):
                        self.fail("shrunk", "%s %r (answer %r): point (%r, %r) was excluded before the request "
                                  "and is not excluded after it (regions before %r, after %r)"
                                  % (op["cmd"], op["data"], got, x, y, before_list, after_list))
            self.model = [norm_region(d) for d in after_list]
