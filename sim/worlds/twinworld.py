"""C08 world: one abstract tool path and one schedule, executed twice -- base encoding (mm, absolute) and a
re-encoded twin (inches / relative / after a G92 re-basing from an arbitrary step, or path and regions
translated by one vector).  Decisions, episode boundaries and physical positions must agree step by step."""
from __future__ import annotations

import copy
import hashlib
import json
from collections import Counter

from .printworld import PrintWorld, Violation


def translate(schedule, vec):
    dx, dy = vec
    out = []
    for op in schedule:
        op = copy.deepcopy(op)
        if op["op"] == "move":
            if op.get("x") is not None:
                op["x"] = round(op["x"] + dx, 4)
            if op.get("y") is not None:
                op["y"] = round(op["y"] + dy, 4)
        elif op["op"] == "api" and "data" in op:
            d = op["data"]
            for kx in ("x1", "x2", "cx"):
                if kx in d:
                    d[kx] = round(d[kx] + dx, 4)
            for ky in ("y1", "y2", "cy"):
                if ky in d:
                    d[ky] = round(d[ky] + dy, 4)
        out.append(op)
    return out


class TwinWorld(object):
    def __init__(self, cfg):
        self.cfg = cfg
        self.viol = None
        self.stats = Counter()
        self.abs_states = set()
        self.log = []
        self.ncalls = 0

    def digest(self):
        return hashlib.sha256(json.dumps(self.log, sort_keys=True, default=str).encode()).hexdigest()

    def run(self, schedule):
        enc = self.cfg["encoding"]
        base = PrintWorld(self.cfg, set())
        try:
            base.run(schedule)
        except Violation:
            pass
        brec = base.op_records
        bdig = base.digest()
        bstats = base.stats
        babs = set(base.abs_states)
        vec = (0.0, 0.0)
        if enc["kind"] == "translate":
            vec = tuple(enc["vec"])
            twin = PrintWorld(self.cfg, set())
            tsched = translate(schedule, vec)
        else:
            twin = PrintWorld(self.cfg, set(), encoding=enc)
            tsched = schedule
        try:
            twin.run(tsched)
        except Violation:
            pass
        trec = twin.op_records
        self.stats.update({k: v for k, v in bstats.items() if k.startswith(("fault:", "probe:", "op:"))})
        self.stats.update({k: v for k, v in twin.stats.items() if k.startswith("probe:encoding")})
        self.abs_states = babs | twin.abs_states
        self.ncalls = base.call_index + twin.call_index + 2
        self.log = [bdig, twin.digest()]
        tol = 2e-4
        start = 0
        if enc["kind"] == "translate":
            # before the first full XY move both tools sit at the (untranslated) home position - and they stay there
            # if that move is itself excluded.  The two runs are comparable from the first full XY move that both
            # filters forward: from then on the printers' positions differ by the vector.
            start = None
            for i in sorted(brec):
                op = schedule[i] if i < len(schedule) else {}
                full = (op.get("op") == "move" and op.get("x") is not None and op.get("y") is not None) \
                    or op.get("op") == "arc"
                if i >= enc["from"] and full and brec[i].get("fwd") and (trec.get(i) or {}).get("fwd"):
                    start = i
                    break
            if start is None:
                self.stats["c08_translate_never_synced"] += 1
                return self.viol
        for i in sorted(brec):
            if i < start:
                continue
            b, t = brec[i], trec.get(i)
            if b.get("margin", 1.0) < 1e-3:
                # precondition of C08 not met from here on (a destination within 1e-3 mm of a border: rounding
                # of the re-encoded coordinates may legitimately flip the decision): stop comparing this run
                self.stats["c08_stopped_at_border"] += 1
                break
            if t is None:
                self.fail(i, "step %d (%r) has no counterpart in the re-encoded run" % (i, b["cmd"]), enc)
                break
            if b["fwd"] != t["fwd"]:
                self.fail(i, "step %d: base %r forwarded=%s, re-encoded %r forwarded=%s"
                          % (i, b["cmd"], b["fwd"], t["cmd"], t["fwd"]), enc)
                break
            if b["excluding"] != t["excluding"]:
                self.fail(i, "step %d: after base %r excluding=%s, after re-encoded %r excluding=%s"
                          % (i, b["cmd"], b["excluding"], t["cmd"], t["excluding"]), enc)
                break
            if "pos" in b and "pos" in t:
                want = [b["pos"][0] + vec[0], b["pos"][1] + vec[1], b["pos"][2]]
                if any(abs(a - c) > tol + 1e-9 * abs(a) for a, c in zip(want, t["pos"])):
                    self.fail(i, "step %d: after base %r the printer is at %r (+%r), after re-encoded %r at %r"
                              % (i, b["cmd"], b["pos"], vec, t["cmd"], t["pos"]), enc)
                    break
                if abs(b["p"] - t["p"]) > 1e-3:
                    self.fail(i, "step %d: filament pushed so far: base %.5f, re-encoded %.5f (%r / %r)"
                              % (i, b["p"], t["p"], b["cmd"], t["cmd"]), enc)
                    break
        return self.viol

    def fail(self, i, msg, enc):
        self.viol = {"property": "C08", "clause": "C08." + enc["kind"], "op": i, "message": msg}
