"""PRINT world: the real plugin inside the stub host, driven by a schedule of abstract ops, with two
reference printers (U: input stream, F: forwarded stream) and the monitors of C01-C07, C14, C15.

A schedule is a list of JSON-able dicts.  Motion ops are *abstract* (native mm targets, extrusion deltas);
they are rendered into G-code at execution time in whatever frame (units / abs-rel / G92 shift) the
unfiltered stream is in, so deleting ops during minimisation always leaves a legal program.
"""
from __future__ import annotations

import copy
import hashlib
import re
import zlib
import json
import math
from collections import Counter

from .. import seams
from ..seams import Events
from ..host import SimComm, SimBus
from ..refprinter import RefPrinter, marlin_words, strict_problems, arc_points
from ..models import (IN, OUT, AMBIG, member3, arc_class, norm_region, AtModel, DeferralModel,
                      LifecycleModel, split_at, split_script, simple_params, END_EVENTS)

import flask

_APP = flask.Flask("verif-sim")

DEFAULT_AT_ACTIONS = [
    {"command": "ExcludeRegion", "parameterPattern": "^\\s*(enable|on)(\\s|$)", "action": "enable_exclusion",
     "description": "d"},
    {"command": "ExcludeRegion", "parameterPattern": "^\\s*(disable|off)(\\s|$)", "action": "disable_exclusion",
     "description": "d"},
]
DEFAULT_MODES = {"G4": "exclude", "M204": "merge", "M205": "merge", "M117": "last", "M73": "merge"}

MOTION_CODES = ("G0", "G1", "G2", "G3")
REPOSITION_CODES = ("G92", "G0", "G90", "G91")


def fmt(v, nd=4, keep_zeros=False):
    s = "%.*f" % (nd, v)
    if not keep_zeros and "." in s:
        s = s.rstrip("0").rstrip(".")
    if s in ("-0", "", "-"):
        s = "0"
    if float(s) == 0.0 and s.startswith("-"):
        s = s[1:]
    return s


def _safe_dict(obj):
    """toDict() of a plugin object; a broken object (e.g. a copy that lacks an attribute) is described, not
    allowed to crash the harness."""
    if obj is None:
        return None
    try:
        return obj.toDict()
    except Exception as ex:
        return {"broken": "%s: %s" % (type(ex).__name__, ex), "attrs": sorted(vars(obj))}


def state_snapshot(state):
    """Structural snapshot of the plugin's tracking state (for 'changes nothing' clauses)."""
    lr = state.lastRetraction
    return json.dumps({
        "pos": _safe_dict(state.position),
        "feed": state.feedRate, "fmul": state.feedRateUnitMultiplier,
        "enabled": state._exclusionEnabled, "excluding": state.excluding,
        "lastRetraction": _safe_dict(lr),
        "lastPosition": _safe_dict(state.lastPosition),
        "pending": [[k, (dict(v) if isinstance(v, dict) else v)] for k, v in state.pendingCommands.items()],
        "regions": [_safe_dict(r) for r in state.excludedRegions],
        "numCommands": state.numCommands, "numExcluded": state.numExcludedCommands,
    }, sort_keys=True, default=str)


class Violation(BaseException):
    pass


class Renderer(object):
    """Renders abstract motion ops into G-code text in the frame the unfiltered stream (printer U) is in."""

    def __init__(self, cfg, g90e=False):
        self.cfg = cfg
        self.U = RefPrinter(g90e)
        self.file_retracted = False
        self.file_retract_len = 0.0
        self.last_e_text = None

    # ------------------------------------------------------------------------------------------------
    # rendering of abstract motion ops in the file's current frame
    # ------------------------------------------------------------------------------------------------
    def _nd(self):
        return 6 if self.U.unit != 1.0 else 4

    def _spell(self, num):
        """Spelling style of numbers (all legal RS274 / Marlin spellings of the same value)."""
        style = self.cfg.get("numstyle")
        if not style:
            return num
        if style == "mixed":
            style = ("noleadzero", "plus", "traildot", None)[zlib.crc32(num.encode()) % 4]
        if style == "noleadzero":
            if num.startswith("0.") and len(num) > 2:
                return num[1:]
            if num.startswith("-0.") and len(num) > 3:
                return "-" + num[2:]
        elif style == "plus":
            if not num.startswith("-"):
                return "+" + num
        elif style == "traildot":
            if "." not in num:
                return num + "."
        return num

    def _join(self, parts):
        return ("" if self.cfg.get("compact") else " ").join(parts)

    def _axis_word(self, i, letter, target):
        U = self.U
        kz = self.cfg.get("keep_zeros", False)
        if U.abs_xyz:
            v = (target + U.shift[i] + U.home_off[i]) / U.unit
        else:
            v = (target - (U.pos[i] if U.pos[i] is not None else 0.0)) / U.unit
        return letter + self._spell(fmt(v, self._nd(), kz))

    def _e_word(self, de):
        """E word for an extruder move by `de` mm, or None if rounding (decimals, unit conversion) would turn an
        extrusion into a non-extrusion or micro-retraction: the programs of C04/C05 consist of extrusions and of
        matched retract/recover cycles, an accidental retraction by 1e-7 mm is neither."""
        U = self.U
        if U.abs_e:
            v = (U.E + de) / U.unit
        else:
            v = de / U.unit
        num = fmt(v, self._nd() + 1, self.cfg.get("keep_zeros", False))
        got = float(num) * U.unit - (U.E if U.abs_e else 0.0)
        if (de > 0 and got <= 1e-9) or (de < 0 and got >= -1e-9):
            return None
        self.last_e_text = num if U.abs_e else None
        return "E" + self._spell(num)

    def render(self, op):
        """-> list of file lines for a motion-level op (may be empty if the op is not legal right now)."""
        U = self.U
        k = op["op"]
        if k == "home":
            axes = op.get("axes")
            return ["G28" + ("".join(" " + a for a in axes) if axes else "")]
        if k == "line":
            return [op["text"]]
        if k == "move":
            parts = ["G%d" % op.get("g", 1)]
            for i, l in enumerate("xyz"):
                if op.get(l) is not None:
                    parts.append(self._axis_word(i, l.upper(), op[l]))
            if len(parts) == 1 and op.get("de") is None and op.get("f") is None:
                return []
            if op.get("de") is not None and not self.file_retracted:
                ew = self._e_word(op["de"])
                if ew is not None:
                    parts.append(ew)
                    if op.get("wipe"):
                        self.file_retracted = True
                        self.file_retract_len = -op["de"]
            elif op.get("e_same") and len(parts) > 1:
                # restates, literally, the E word the file wrote last (only while nothing else touched E since)
                num = self.last_e_text if U.abs_e else "0"
                if num is not None:
                    parts.append("E" + self._spell(num))
            if len(parts) == 1:
                return []
            if op.get("f") is not None:
                parts.append("F" + fmt(op["f"] / U.unit, 3))
            return [self._join(parts)]
        if k == "arc":
            if not U.homed():
                return []
            ci, cj, sweep, cw = op["ci"], op["cj"], op["sweep"], op["cw"]
            sx, sy = U.pos[0], U.pos[1]
            cx, cy = sx + ci, sy + cj
            a0 = math.atan2(-cj, -ci)
            a1 = a0 - sweep if cw else a0 + sweep
            r = math.hypot(ci, cj)
            ex_, ey_ = cx + r * math.cos(a1), cy + r * math.sin(a1)
            parts = ["G2" if cw else "G3"]
            # an axis word may be left out when the end point does not move along that axis (half a turn about a
            # centre straight above / beside the start); likewise an offset word that is exactly 0
            if not (op.get("omit") == "x" and abs(ex_ - sx) < 1e-9):
                parts.append(self._axis_word(0, "X", ex_))
            if not (op.get("omit") == "y" and abs(ey_ - sy) < 1e-9):
                parts.append(self._axis_word(1, "Y", ey_))
            if op.get("z") is not None:
                parts.append(self._axis_word(2, "Z", op["z"]))
            if not (op.get("omit") and ci == 0.0):
                parts.append("I" + fmt(ci / U.unit, self._nd()))
            if not (op.get("omit") and cj == 0.0):
                parts.append("J" + fmt(cj / U.unit, self._nd()))
            if op.get("de") is not None and not self.file_retracted:
                ew = self._e_word(op["de"])
                if ew is not None:
                    parts.append(ew)
            if op.get("f") is not None:
                parts.append("F" + fmt(op["f"] / U.unit, 3))
            return [self._join(parts)]
        if k == "retract":
            if self.file_retracted and op.get("extra") and self.file_retract_len is not None and not op.get("fw"):
                # a further retraction without an intervening recovery (Slic3r wipe + retract_layer_change)
                self.file_retract_len += op["len"]
                line = "G1 " + (self._e_word(-op["len"]) or "")
                if op.get("f") is not None:
                    line += " F" + fmt(op["f"] / U.unit, 3)
                return [line]
            if self.file_retracted:
                return []
            self.file_retracted = True
            if op.get("fw"):
                self.file_retract_len = None
                return [self._join(["G10"] + ([op["params"]] if op.get("params") else []))]
            self.file_retract_len = op["len"]
            line = "G1 " + (self._e_word(-op["len"]) or "")
            if op.get("f") is not None:
                line += " F" + fmt(op["f"] / U.unit, 3)
            return [line]
        if k == "recover":
            if not self.file_retracted:
                return []
            self.file_retracted = False
            if self.file_retract_len is None:
                return [self._join(["G11"] + ([op["params"]] if op.get("params") else []))]
            line = "G1 " + (self._e_word(self.file_retract_len) or "")
            if op.get("f") is not None:
                line += " F" + fmt(op["f"] / U.unit, 3)
            return [line]
        if k == "mode":
            self.last_e_text = None
            return ["G91" if op["rel"] else "G90"]
        if k == "units":
            self.last_e_text = None
            return ["G20" if op["inch"] else "G21"]
        if k == "g92e":
            self.last_e_text = fmt(op["e"] / U.unit, self._nd() + 1)
            return ["G92 E" + self.last_e_text]
        if k == "g92":
            parts = ["G92"]
            for l in "xyz":
                if op.get(l) is not None:
                    parts.append(l.upper() + fmt(op[l], self._nd()))
            return [" ".join(parts)] if len(parts) > 1 else []
        raise KeyError(k)




class PrintWorld(Renderer):
    """Executes a schedule. `monitors` = set of property ids whose clauses are evaluated."""

    def __init__(self, cfg, monitors, reset_globals=True, encoding=None):
        self.cfg = cfg
        self.mon = set(monitors)
        if reset_globals:
            seams.reset_run_globals()
        self.g90e = bool(cfg.get("g90e", False))
        seams.set_g90_influences_extruder(self.g90e)
        for k, v in (cfg.get("settings") or {}).items():
            self._store_setting(k, v)
        self.plugin = seams.make_plugin(cfg.get("log", "off"))
        self.comm = SimComm(self.plugin, on_call=self.on_call)
        self.comm.before_call = self.before_call
        self.paused = False
        self.bus = SimBus(self.plugin, on_deliver=self.on_deliver)
        Renderer.__init__(self, cfg, self.g90e)
        self.F = RefPrinter(self.g90e)
        self.life = LifecycleModel()
        self.at = AtModel(self._setting("atCommandActions", DEFAULT_AT_ACTIONS))
        self.defer = DeferralModel(self._modes_from_settings())
        self.enter_lines = split_script(self._setting("enteringExcludedRegionGcode", None)) or []
        self.exit_lines = split_script(self._setting("exitingExcludedRegionGcode", None)) or []
        self.enabled = True           # model of the enable/disable switch
        self.episode = False          # EpisodeTracker
        self.guard_axes = set()       # HomedGuard
        self.regions = []             # currently defined regions (as a client sees them)
        self.max_dU = 0.0
        self.tol = 1e-7
        self.zneed = None
        self.resync_due = False
        self.print_over = False       # the job's program is over (afterPrintDone hook was invoked)
        self.afterprint_prefix = []   # texts of commands returned by the afterPrintDone hook (still to re-enter)
        self.disable_exit_pending = []
        self.viol = None
        self.log = []
        self.stats = Counter()
        self.abs_states = set()
        self.op_index = -1
        self.call_index = -1
        self.encoding = encoding or {}   # C08 re-encoding switches
        self.trace = []               # per-call decision trace (C08)
        self._snap_before = None
        self.sim_time = 0.0
        self._pre = None
        self._foreign_seen = set()
        self.c02_on = True            # C02 judges only the job whose own destinations stay clear
        self.file_feeds = {0.0}       # feed rates (mm/min) the input stream has selected so far
        self._u_before_e = None
        self.file_retract_amounts = set()   # lengths (mm) of (sums of consecutive) retractions of the file
        self._cycle = []
        self.op_records = {}          # per sender op: decision / episode / printer position (C08)
        self.enc_applied = False

    # ------------------------------------------------------------------------------------------------
    # settings helpers
    # ------------------------------------------------------------------------------------------------
    def _store_setting(self, key, value):
        if key == "g90e":
            seams.set_g90_influences_extruder(value)
            return
        seams.SETTINGS.set(["plugins", "excluderegion", key], value, force=True)

    def _setting(self, key, default):
        v = seams.SETTINGS.get(["plugins", "excluderegion", key])
        return default if v is None else v

    def _modes_from_settings(self):
        v = seams.SETTINGS.get(["plugins", "excluderegion", "extendedExcludeGcodes"])
        if v is None:
            return dict(DEFAULT_MODES)
        return {e["gcode"]: e["mode"] for e in v}

    def _refresh_config_models(self):
        """Called when a SETTINGS_UPDATED event is *delivered*: the models follow the plugin's cache."""
        self.defer.set_modes(self._modes_from_settings())
        self.enter_lines = split_script(self._setting("enteringExcludedRegionGcode", None)) or []
        self.exit_lines = split_script(self._setting("exitingExcludedRegionGcode", None)) or []
        self.life.clear_after = bool(self._setting("clearRegionsAfterPrintFinishes", False))
        self.life.may_shrink = bool(self._setting("mayShrinkRegionsWhilePrinting", False))
        g = bool(seams.SETTINGS.getBoolean(["feature", "g90InfluencesExtruder"]))
        self.g90e = g
        self.U.g90e = g
        self.F.g90e = g
        try:
            # (read last by the plugin's handler: everything above is already in effect when this fails)
            self.at.set_actions(self._setting("atCommandActions", DEFAULT_AT_ACTIONS))
        except (ValueError, re.error, KeyError, TypeError):
            self.stats["probe:at_config_rejected"] += 1

    def _refresh_regions(self):
        self.regions = [norm_region(r.toDict()) for r in self.plugin.state.excludedRegions]

    # ------------------------------------------------------------------------------------------------
    # violations / logging
    # ------------------------------------------------------------------------------------------------
    def fail(self, prop, clause, msg):
        if prop not in self.mon:
            # another property's clause fired in this property's world.  Counted once per run, reported only by
            # that property's own check (whose profile keeps its preconditions, e.g. matched cycles, one print).
            key = "foreign:" + prop + "." + clause
            if key not in self._foreign_seen:
                self._foreign_seen.add(key)
                self.stats[key] += 1
            return
        if self.viol is None:
            self.viol = {"property": prop, "clause": prop + "." + clause, "op": self.op_index,
                         "call": self.call_index, "message": msg}
            raise Violation()

    def digest(self):
        return hashlib.sha256(json.dumps(self.log, sort_keys=True, default=str).encode()).hexdigest()

    # ------------------------------------------------------------------------------------------------
    # host callbacks
    # ------------------------------------------------------------------------------------------------
    def on_deliver(self, ev, exc):
        self.log.append(["ev", ev, exc])
        if exc is not None:
            self.stats["event_exception"] += 1
        if ev == Events.SETTINGS_UPDATED:
            self._refresh_config_models()
        if ev == Events.PRINT_STARTED:
            self.enabled = True
            if self.episode:
                self.stats["probe:episode_discarded_by_new_print"] += 1
            self.episode = False
            self.defer.discard()
            self.guard_axes = set()
            self.zneed = None
            self.resync_due = False
            self.print_over = False
        res = self.life.on_event(ev)
        if res == "cleared":
            pass
        self._refresh_regions()

    def tracking(self):
        return self.life.active and len(self.guard_axes) == 3 and self.U.homed() and not self.print_over

    def before_call(self, call):
        if "C14" in self.mon or "C11" in self.mon:
            self._snap_before = state_snapshot(self.plugin.state)
        lr = self.plugin.state.lastRetraction
        self._pre = (self.plugin.state.excluding, lr is not None, bool(lr and lr.recoverExcluded),
                     bool(lr and lr.allowCombine), None if lr is None or lr.firmwareRetract else lr.extrusionAmount)

    def on_call(self, call):
        self.call_index += 1
        cmd, src = call.cmd, call.src
        U, F = self.U, self.F
        active = self.life.active
        is_at = cmd.startswith("@")
        code, sub, w = (None, None, {}) if is_at else marlin_words(cmd)
        # ---- C09 (always-on monitor)
        if call.exc is not None or call.at_exc is not None:
            self.log.append(["exc", cmd, call.exc, call.at_exc])
            if self.tracking() or (active and is_at):
                self.fail("C09", "raise", "hook raised on %r: %s" % (cmd, call.exc or call.at_exc))
        # ---- unfiltered reference printer
        U_before = None
        if src != "plugin":
            U_before, _ = U.run(cmd)
            self._u_before_e = U_before[4]
            self.sim_time = U.clock
        if src != "plugin" and code is not None:
            self.file_feeds.add(U.feed)
            if U_before is not None and code in ("G0", "G1"):
                dpu_ = U.p - U_before[5]
                if dpu_ < 0:
                    # every sum of consecutive retractions of the current cycle is a length the filter may
                    # legitimately have recorded (it combines consecutive retractions)
                    self._cycle.append(-dpu_)
                    acc = 0.0
                    for ln in reversed(self._cycle):
                        acc += ln
                        self.file_retract_amounts.add(round(acc, 9))
                elif U.depth() <= 1e-9:
                    self._cycle = []
        if active and code == "G28" and src != "plugin":
            axes = set(l for l in "XYZ" if l in w) or set("XYZ")
            self.guard_axes |= axes
        tracking = self.tracking()
        is_move = code in ("G0", "G1") and any(w.get(l) is not None for l in "XYZ")
        is_arc = code in ("G2", "G3") and U.last_arc is not None and src != "plugin"
        was_episode = self.episode
        opened = closed = False
        cls = None
        adopted = False
        disable_close = False
        # ---- tracker
        if src != "plugin" and active and is_at and not self.comm.streaming:
            c, p = split_at(cmd)
            for act in self.at.match(c, p):
                if act == "enable_exclusion":
                    if not self.enabled:
                        self.stats["probe:enabled_by_at"] += 1
                    self.enabled = True
                elif act == "disable_exclusion":
                    if self.enabled:
                        self.enabled = False
                        self.stats["probe:disabled_by_at"] += 1
                        if self.episode:
                            self.episode = False
                            closed = True
                            disable_close = True
                            self.stats["probe:episode_closed_by_disable"] += 1
        elif src != "plugin" and tracking and (is_move or is_arc):
            cls = self._classify(U, is_arc)
            if not self.enabled:
                cls = OUT
            if cls == AMBIG:
                adopted = True
                self.stats["adopted_steps"] += 1
                new_ep = bool(self.plugin.state.excluding)
            else:
                new_ep = (cls == IN)
            opened = new_ep and not self.episode
            closed = self.episode and not new_ep
            self.episode = new_ep
            if opened:
                self.stats["probe:episode_opened"] += 1
            if closed:
                self.stats["probe:episode_closed_by_move"] += 1
        # ---- deferral model bookkeeping (before looking at the wire)
        withheld = False
        flush = None
        if src != "plugin" and tracking:
            if was_episode and not closed and not opened and code is not None and code in self.defer.modes \
                    and not (is_move or is_arc):
                withheld = self.defer.offer(code, cmd)
                self.stats["probe:deferred_offer"] += 1
        if closed:
            flush = self.defer.flush()
            if len(flush) >= 1:
                self.stats["probe:flush_nonempty"] += 1
        # ---- forwarded stream on F
        z_at_start = F.pos[2]
        if closed and tracking and not disable_close:
            self.zneed = max(z_at_start, U.pos[2]) if z_at_start is not None else None
        if disable_close and tracking and F.homed():
            self.zneed = max(F.pos[2], U.pos[2])
            self.resync_due = True
        enter_here = list(self.enter_lines) if opened else []
        verbatim_seen = False
        for wc in call.wire:
            synthesized = (wc != cmd)
            if not synthesized:
                verbatim_seen = True
            d_before = F.depth()
            hw_before = F.hw
            fb, fcode = F.run(wc)
            if fcode is None and not wc.startswith("@"):
                self.stats["wire_unparsed"] += 1
            fpos_b = fb[0]
            moved_xy = (fpos_b[0] != F.pos[0]) or (fpos_b[1] != F.pos[1])
            moved_z = fpos_b[2] != F.pos[2]
            dp = F.p - fb[5]
            # C07: synthesised commands must be plain decimal, well formed
            if synthesized and src != "plugin":
                self._check_c07(wc)
                if fcode == "G1" and not moved_xy and not moved_z and abs(dp) > self._etol() and tracking \
                        and wc not in self.enter_lines and wc not in self.exit_lines:
                    amt = abs(dp)
                    if not any(abs(amt - a) <= 2 * self._etol() + 1e-9 * a for a in self.file_retract_amounts):
                        self.fail("C07", "amount", "synthesised %r moves %.6f mm of filament; the file's retractions "
                                  "so far have the lengths / depths %s" % (wc, dp, sorted(self.file_retract_amounts)[:8]))
            if not (tracking and F.homed()):
                continue
            from_afterprint = (src == "plugin" and wc in self.afterprint_prefix)
            # C01.into
            if self.enabled and moved_xy and fcode in MOTION_CODES and not from_afterprint:
                fcls = member3(self.regions, F.pos[0], F.pos[1], exact=(F.exact[0] and F.exact[1]))
                if fcls == IN:
                    self.fail("C01", "into", "forwarded %r moves the tool to (%.6f, %.6f) inside a region"
                              % (wc, F.pos[0], F.pos[1]))
                if F.last_arc is not None and self.regions and not self._arc_sweep_fragile(F):
                    pts, spacing = arc_points(F.last_arc)
                    if arc_class(self.regions, pts, spacing, F.unit) == IN:
                        self.fail("C01", "arc", "forwarded arc %r passes deep through a region" % (wc,))
            # C01.episode
            if self.episode and src != "plugin":
                if (moved_xy or moved_z or dp > self.tol):
                    if wc in enter_here:
                        pass
                    else:
                        self.fail("C01", "episode", "during an episode %r changed xy=%s z=%s filament=%+.6f"
                                  % (wc, moved_xy, moved_z, dp))
            # C03.zorder
            if self.zneed is not None and moved_xy and (synthesized or src == "plugin"):
                zt = 1e-6 + 1e-9 * abs(self.zneed)
                if abs(fpos_b[2] - self.zneed) > zt or abs(F.pos[2] - self.zneed) > zt:
                    self.fail("C03", "zorder", "re-positioning travel %r at Z=%.6f->%.6f, required Z=%.6f"
                              % (wc, fpos_b[2], F.pos[2], self.zneed))
            # C04.b / C04.c
            if src != "plugin":
                if not synthesized and not self.episode and not was_episode and "E" in w and U_before is not None:
                    dpu = U.p - U_before[5]
                    if abs(dp - dpu) > self._etol():
                        self.fail("C04", "amount", "%r pushes %+.6f mm on the printer, the file specifies %+.6f"
                                  % (wc, dp, dpu))
                if self.episode and dp > self._etol():
                    self.fail("C04", "suppressed", "during an episode %r advanced filament by %+.6f" % (wc, dp))
            # C05.iii / iv / parity
            if src != "plugin":
                if synthesized and F.hw > hw_before + self._etol():
                    self.fail("C05", "overrecover", "synthesised %r pushed filament past its high-water mark "
                              "(+%.6f)" % (wc, F.hw - hw_before))
                if not synthesized and moved_xy and dp > self._etol() and U_before is not None:
                    du_before = U_before[6] - U_before[5]
                    if abs(d_before - du_before) > self._etol():
                        self.fail("C05", "resume", "printing move %r starts at retraction depth %.6f, file "
                                  "assumes %.6f" % (wc, d_before, du_before))
                    if fb[7] != U_before[7]:
                        self.fail("C05", "parity", "printing move %r with firmware-retract state %s, file "
                                  "assumes %s" % (wc, fb[7], U_before[7]))
                if synthesized and fcode in ("G10", "G11") and code in ("G10", "G11"):
                    if marlin_words(wc)[2] != w:
                        self.fail("C05", "params", "synthesised %r does not carry the parameters of %r" % (wc, cmd))
        # ---- probes on the retraction state machine (reach measurement only, never a verdict)
        if self._pre is not None:
            lr = self.plugin.state.lastRetraction
            (_ex, had, owed, comb, amt) = self._pre
            now_owed = bool(lr and lr.recoverExcluded)
            if not owed and now_owed:
                self.stats["probe:recovery_skipped_now_owed"] += 1
            if owed and lr is None and len(call.wire) > 1:
                self.stats["probe:owed_recovery_paid"] += 1
            if owed and lr is not None and not now_owed and not self.plugin.state.excluding and not call.wire[:0] \
                    and code in ("G0", "G1", "G10"):
                self.stats["probe:retraction_skipped_already_retracted"] += 1
            if had and lr is not None and amt is not None and not lr.firmwareRetract and lr.extrusionAmount != amt:
                self.stats["probe:retractions_combined"] += 1
            if not had and lr is not None and self.plugin.state.excluding and call.wire and call.wire[-1] != cmd:
                self.stats["probe:first_retraction_in_region_generated"] += 1
        # ---- per-call clauses
        if src == "file":
            rec = {"cmd": cmd, "fwd": bool(call.wire and call.wire[-1] == cmd),
                   "excluding": bool(self.plugin.state.excluding)}
            if (is_move or is_arc) and U.homed() and self.regions:
                from ..models import depth as _depth
                rec["margin"] = min(abs(_depth(r, U.pos[0], U.pos[1])) for r in self.regions)
            self.op_records[self.op_index] = rec
        self.log.append(["call", src, cmd, call.wire, call.sent])
        self.trace.append((src, bool(call.wire and call.wire[-1] == cmd) if not is_at else None,
                           self.episode, opened, closed))
        for s_ in call.sent:
            self._check_c07(s_)
        if src == "plugin":
            if cmd in self.afterprint_prefix:
                self.afterprint_prefix.remove(cmd)
            self._abstract_state(code, src)
            return
        # C02
        if "C02" in self.mon and self.c02_on:
            if call.wire != [cmd] or call.sent:
                self.fail("C02", "verbatim", "input %r was forwarded as %r (sent via comm: %r)"
                          % (cmd, call.wire, call.sent))
        if tracking:
            if opened:
                if cmd in call.wire:
                    self.fail("C01", "open_forwarded", "move %r into a region was forwarded" % (cmd,))
                if call.wire[:len(enter_here)] != enter_here:
                    self.fail("C06", "enter", "episode opened by %r: wire %r does not start with the enter "
                              "script %r" % (cmd, call.wire, enter_here))
                extra = call.wire[len(enter_here):]
                retracts = U_before is not None and (U.p - U_before[5]) < -1e-9
                if extra and not retracts:
                    self.fail("C06", "enter_extra", "episode opened by %r (which does not retract): besides the "
                              "enter script %r the printer received %r" % (cmd, enter_here, extra))
            elif self.enter_lines and not closed and any(x in self.enter_lines for x in call.wire if x != cmd):
                # (a closing step is judged by the exit-sequence clauses, where a deferred command of the program
                # may legitimately read like a script line)
                self.fail("C06", "enter_again", "enter script line emitted outside an episode start: %r"
                          % (call.wire,))
            if withheld and call.wire:
                self.fail("C06", "withheld", "configured code %r arrived during an episode but %r reached the "
                          "printer" % (cmd, call.wire))
            if closed and not disable_close:
                self._check_exit_sequence(call.wire, flush, "C06", "flush", cmd)
            if disable_close:
                self._check_exit_sequence(call.sent, flush, "C06", "flush_disable", cmd)
                if not call.sent:
                    self.fail("C14", "disable_exit", "disable %r during an episode sent nothing" % (cmd,))
            if not closed and not opened and not was_episode and code in self.defer.modes \
                    and not (is_move or is_arc) and call.wire != [cmd]:
                self.fail("C06", "outside", "configured code %r outside an episode forwarded as %r"
                          % (cmd, call.wire))
            # C14 decisions
            if (is_move or is_arc) and cls is not None:
                if not self.enabled and (not call.wire or call.wire[-1] != cmd):
                    self.fail("C14", "disabled_suppressed", "exclusion is disabled but move %r was forwarded "
                              "as %r" % (cmd, call.wire))
                if self.enabled and not adopted:
                    if cls == IN and cmd in call.wire:
                        self.fail("C14", "decision", "move %r ends inside a region (true position %.4f,%.4f)"
                                  " but was forwarded" % (cmd, U.pos[0], U.pos[1]))
                    if cls == OUT and not was_episode and (not call.wire or call.wire[-1] != cmd):
                        self.fail("C14", "decision", "move %r ends outside every region (true position "
                                  "%.4f,%.4f) but was not forwarded: %r" % (cmd, U.pos[0], U.pos[1], call.wire))
            # C03.pos (and C14 resync)
            if (is_move or is_arc) and not self.episode and F.homed():
                self._check_sync("C03", "pos", cmd)
                if closed:
                    self.stats["probe:exit_z_" + ("up" if U.pos[2] > (z_at_start or 0) else
                                                  "down" if U.pos[2] < (z_at_start or 0) else "same")] += 1
            # C04.a
            if not self.episode and not self.resync_due and F.homed():
                if abs(F.E - U.E) > self._etol() + 1e-9 * abs(U.E):
                    self.fail("C04", "coord", "after %r the printer's E is %.6f, the file assumes %.6f"
                              % (cmd, F.E, U.E))
            # C05 ledger
            dU = U.depth()
            if dU > self.max_dU:
                self.max_dU = dU
            if F.depth() > self.max_dU + self._etol():
                self.fail("C05", "deeper", "after %r physical retraction depth %.6f exceeds the deepest the "
                          "file requested so far (%.6f)" % (cmd, F.depth(), self.max_dU))
            if F.depth() < dU - self._etol():
                self.fail("C05", "shallower", "after %r physical retraction depth %.6f is less than the file "
                          "assumes (%.6f)" % (cmd, F.depth(), dU))
        # C14: @-commands that match nothing / arrive while streaming change nothing
        if is_at and active and "C14" in self.mon:
            c, p = split_at(cmd)
            if self.comm.streaming or not self.at.match(c, p):
                if call.sent or state_snapshot(self.plugin.state) != self._snap_before:
                    self.fail("C14", "noop", "@-command %r (no configured action / streaming) changed the "
                              "filter state or sent %r" % (cmd, call.sent))
                self.stats["probe:at_noop"] += 1
        if not (src == "plugin"):
            if self.zneed is not None and not disable_close:
                self.zneed = None
        self._abstract_state(code, src)

    # ------------------------------------------------------------------------------------------------
    def _etol(self):
        # inch programs are rendered with 6-7 decimals of an inch: equal-length cycles are equal to ~1e-5 mm
        if self.U.unit != 1.0:
            self.tol = 1e-4
        return self.tol

    def _classify(self, U, is_arc):
        ex = U.exact[0] and U.exact[1]
        end_cls = member3(self.regions, U.pos[0], U.pos[1], exact=ex)
        if end_cls == AMBIG:
            self.stats["probe:border_ambig"] += 1
        elif ex and self.regions:
            from ..models import depth
            if any(abs(depth(r, U.pos[0], U.pos[1])) == 0.0 for r in self.regions):
                self.stats["probe:border_hit_exact"] += 1
        if not is_arc:
            return end_cls
        if self._arc_sweep_fragile(U):
            self.stats["probe:arc_sweep_fragile"] += 1
            return AMBIG
        pts, spacing = arc_points(U.last_arc)
        a_cls = arc_class(self.regions, pts, spacing, U.unit)
        if a_cls == IN or end_cls == IN:
            return IN
        if a_cls == OUT and end_cls == OUT:
            return OUT
        return AMBIG

    @staticmethod
    def _arc_sweep_fragile(printer):
        """An arc whose end point (nearly) coincides with its start is read as a full circle or as no travel
        at all depending on the last bit of the angle; unless start == end exactly in an exact frame the two
        readings cannot be told apart, by the filter or by a firmware."""
        (s, c, e, cw, ang, radius) = printer.last_arc
        near = abs(ang) < 1e-4 or abs(abs(ang) - 2 * math.pi) < 1e-4
        if not near:
            return False
        return not (s[0] == e[0] and s[1] == e[1] and printer.exact[0] and printer.exact[1])

    def _check_c07(self, wc):
        if wc in self.enter_lines or wc in self.exit_lines:
            return
        code, _s, w_ = marlin_words(wc)
        if code in ("G0", "G1", "G10", "G11", "G92") or self.defer.modes.get(code) == "merge":
            self.stats["synth_checked"] += 1
            probs = strict_problems(wc)
            if probs:
                self.fail("C07", "format", "synthesised command %r: %s" % (wc, "; ".join(probs)))
            # intended value of a G92 E word: the file's extruder coordinate (at exits and re-syncs), or that
            # coordinate shifted by a retraction length of the file (the G92 half of a retract / recover pair)
            if code == "G92" and w_.get("E") is not None and self.tracking():
                v_mm = w_["E"] * self.F.unit
                ub = self._u_before_e if self._u_before_e is not None else self.U.E
                amounts = sorted(self.file_retract_amounts)
                # exit / re-sync: E after the command; retraction re-done on the printer: G92 E(e + len), G1 E(e);
                # owed recovery: G92 E(e_before - len), G1 E(e_before), then the command itself
                cands = [self.U.E, ub] + [self.U.E + a for a in amounts] + [ub + a for a in amounts] \
                    + [ub - a for a in amounts]
                tol = 2 * self._etol() + 1e-9 * abs(self.U.E)
                if not any(abs(v_mm - c) <= tol for c in cands):
                    self.fail("C07", "g92e", "synthesised command %r sets E to %.6f mm on the printer; the file's "
                              "extruder coordinate is %.6f (before this command %s)"
                              % (wc, v_mm, self.U.E, self._u_before_e))
            # intended value of an F word: a feed rate the file has selected at some point (the modal feed rate
            # for re-positioning, the retraction's own feed rate for retract / recover), in the printer's units
            if code in ("G0", "G1") and w_.get("F") is not None and self.tracking():
                f_mm = w_["F"] * self.F.unit
                if not any(abs(f_mm - v) <= 1e-9 * max(1.0, abs(v)) for v in self.file_feeds):
                    self.fail("C07", "feed", "synthesised command %r: F reads as %.6f mm/min on the printer, the "
                              "file never selected that feed rate (it selected %s)"
                              % (wc, f_mm, sorted(self.file_feeds)[:8]))

    def _check_sync(self, prop, clause, cmd):
        U, F = self.U, self.F
        for i, l in enumerate("XYZ"):
            if abs(F.pos[i] - U.pos[i]) > 1e-6 + 1e-9 * abs(U.pos[i]):
                self.fail(prop, clause, "after %r the printer is at %s=%.6f, the unfiltered file would be at "
                          "%.6f (printer %r, file %r)" % (cmd, l, F.pos[i], U.pos[i], F.pos, U.pos))
        if F.abs_xyz != U.abs_xyz:
            self.fail(prop, "mode", "after %r printer positioning mode absolute=%s, file selected %s"
                      % (cmd, F.abs_xyz, U.abs_xyz))
        if F.unit != U.unit:
            self.fail(prop, "units", "after %r printer unit factor %s, file selected %s" % (cmd, F.unit, U.unit))

    def _check_exit_sequence(self, seq, flush, prop, clause, cmd):
        """seq must be: flush (deferred), exit script, then only re-positioning commands."""
        seq = list(seq)
        k = 0
        for (gcode, kind, val) in flush or []:
            if k >= len(seq):
                self.fail(prop, clause, "episode closed by %r: deferred %s missing from %r" % (cmd, gcode, seq))
                return
            got = seq[k]
            if kind == "text":
                if got != val:
                    self.fail(prop, clause, "episode closed by %r: expected deferred %r at position %d, got %r "
                              "(full output %r)" % (cmd, val, k, got, seq))
            else:
                gc, _s, _w = marlin_words(got)
                if gc != gcode or dict(simple_params(got)) != dict(val) or \
                        len(simple_params(got)) != len(val):
                    self.fail(prop, clause, "episode closed by %r: expected merged %s %r at position %d, got %r"
                              % (cmd, gcode, dict(val), k, got))
            k += 1
        ex = self.exit_lines
        if seq[k:k + len(ex)] != ex:
            self.fail(prop, clause + "_exit", "episode closed by %r: exit script %r expected at position %d of %r"
                      % (cmd, ex, k, seq))
        k += len(ex)
        # the re-positioning tail: G92 E once, then [G90] [G0 Z] G0 X Y [G0 Z] [G91] -- one of each at most
        shape = []
        for got in seq[k:]:
            gc, _s, w_ = marlin_words(got)
            if gc not in REPOSITION_CODES:
                self.fail(prop, clause + "_tail", "episode closed by %r: unexpected %r after the exit script in %r"
                          % (cmd, got, seq))
            if got in ex and ex.count(got) < seq.count(got):
                self.fail(prop, clause + "_exit", "exit script line repeated: %r" % (seq,))
            if gc == "G0":
                shape.append("xy" if ("X" in w_ or "Y" in w_) else "z")
            else:
                shape.append(gc or "?")
        allowed = re.compile(r"^G92 (G90 )?(z )?xy (z )?(G91 )?$")
        if not allowed.match(" ".join(shape) + " "):
            self.fail(prop, clause + "_tail", "episode closed by %r: re-positioning part of %r has the shape %r, "
                      "expected G92 E, then one X/Y travel with at most one Z move before or after it"
                      % (cmd, seq, shape))

    def _abstract_state(self, code, src):
        st = self.plugin.state
        lr = st.lastRetraction
        key = (self.life.active, st._exclusionEnabled, st.excluding,
               None if lr is None else (lr.firmwareRetract, lr.recoverExcluded, lr.allowCombine),
               bool(st.pendingCommands), st.position.X_AXIS.absoluteMode, st.position.X_AXIS.unitMultiplier,
               min(len(st.excludedRegions), 2), src, code if code in
               ("G0", "G1", "G2", "G3", "G10", "G11", "G20", "G21", "G28", "G90", "G91", "G92") else
               ("@" if code is None else "other"))
        self.abs_states.add(key)

    # ------------------------------------------------------------------------------------------------
    # ops
    # ------------------------------------------------------------------------------------------------
    SENDER_OPS = ("home", "line", "move", "arc", "retract", "recover", "mode", "units", "g92e", "g92")

    def run(self, schedule):
        try:
            for i, op in enumerate(schedule):
                self.op_index = i
                self.step(op)
                if self.viol is not None:
                    break
        except Violation:
            pass
        return self.viol

    def step(self, op):
        k = op["op"]
        self.stats["op:" + k] += 1
        if k in self.SENDER_OPS:
            if not self.comm.printing:
                self.stats["sender_op_while_not_printing"] += 1
                return
            if op.get("needs_no_episode") and (self.episode or self.plugin.state.excluding):
                self.stats["skipped_needs_no_episode"] += 1   # carve-out of C03/C08: not while an episode is open
                return
            enc = self.encoding
            if enc and not self.enc_applied and self.op_index >= enc["from"] and self.U.homed() \
                    and k not in ("home", "units", "mode"):
                self._apply_encoding(enc)
            for line in self.render(op):
                self.comm.send_file_line(line, src=("terminal" if op.get("via") == "terminal" else "file"))
            self._after_pump()
            rec = self.op_records.get(self.op_index)
            if rec is not None and self.F.homed():
                rec["pos"] = list(self.F.pos)
                rec["p"] = self.F.p
        elif k == "pump":
            self.comm.pump()
            self._after_pump()
        elif k == "terminal":
            self.comm.sendCommand(op["text"], src="terminal")
        elif k == "api":
            self._api(op)
        elif k == "api_get":
            with _APP.app_context():
                got = self.plugin.on_api_get(None).get_json()
            self.log.append(["get", got])
        elif k == "event":
            self.bus.fire(op["name"], op.get("payload"))
        elif k == "deliver":
            n = op.get("n")
            self.bus.deliver_all() if n is None else self.bus.deliver(n)
        elif k == "bus":
            getattr(self.bus, op["do"] + "_head")()
            self.stats["fault:evt_" + op["do"]] += 1
        elif k == "settings":
            if op.get("needs_no_episode") and (self.episode or self.plugin.state.excluding):
                self.stats["skipped_needs_no_episode"] += 1
                return
            for key, v in op["set"].items():
                self._store_setting(key, v)
            self.bus.fire(Events.SETTINGS_UPDATED)
            self.stats["fault:settings_churn"] += 1
            if op.get("deliver", True):
                self.bus.deliver_all()
        elif k == "clock":
            c = seams.CLOCK
            if "skew" in op:
                c.skew = op["skew"]
            if "freeze" in op:
                c.frozen = (c.now + c.skew) if op["freeze"] else None
            self.stats["fault:clock_jump"] += 1
        elif k == "logfail":
            self.plugin._sim_log_handler.fail = bool(op["on"])
            for h in seams.SimRotatingFileHandler.instances:
                h.fail = bool(op["on"])
            self.stats["fault:log_sink_fail"] += 1
        elif k == "sd_stream":
            self.comm.streaming = bool(op["on"])
            self.stats["fault:sd_stream"] += 1
        elif k == "print_start":
            self.comm.printing = True
            self.file_retracted = False
            self.last_e_text = None
            self.bus.fire(Events.PRINT_STARTED)
            self._script("beforePrintStarted")
            if op.get("deliver", True):
                self.bus.deliver_all()
        elif k == "print_done":
            self._print_done(op)
        elif k == "abort":
            self._abort(op)
        elif k == "pause":
            if self.comm.printing:
                self.comm.printing = False
                self.paused = True
                self.bus.fire(Events.PRINT_PAUSED)
                self._script("afterPrintPaused", part_of_job=False)
                self.stats["fault:pause_resume"] += 1
        elif k == "resume":
            if getattr(self, "paused", False):
                self.paused = False
                self._script("beforePrintResumed", part_of_job=False)
                self.comm.printing = True
                self.bus.fire(Events.PRINT_RESUMED)
        elif k == "script_hook":
            self._script(op["name"], stype=op.get("type", "gcode"), send=False)
            self.stats["fault:script_hook_extra"] += 1
        elif k == "c02_judge":
            self.c02_on = bool(op["on"])
        elif k == "upload_new":
            # benign concurrent traffic: an upload is filtered offline while the print goes on
            import io
            self._proc = seams._SP_mod.StreamProcessor(io.BytesIO(b""), self.plugin.gcodeHandlers)
            self.stats["fault:upload_concurrent"] += 1
        elif k == "upload_line":
            if getattr(self, "_proc", None) is not None:
                try:
                    self._proc.process_line(op["text"])
                except Exception:
                    self.stats["upload_line_raised"] += 1
        else:
            raise KeyError("unknown op %r" % (k,))
        seams.CLOCK.now = 1.7e9 + self.sim_time

    def _apply_encoding(self, enc):
        """C08: from here on the same tool path is expressed in another encoding."""
        self.last_e_text = None
        kind = enc["kind"]
        if kind == "inch":
            self.comm.send_file_line("G20")
        elif kind == "rel":
            self.comm.send_file_line("G91")
        elif kind == "g92":
            if self.episode or self.plugin.state.excluding:
                return          # carve-out: not while an episode is open; retried at the next op
            self.comm.send_file_line("G92" + "".join(" %s%s" % (l.upper(), fmt(enc[l], 2))
                                                     for l in "xyz" if enc.get(l) is not None))
        self.enc_applied = True
        self.stats["probe:encoding_applied_" + kind] += 1

    def _after_pump(self):
        if self.resync_due and not self.comm.command_queue and not self.comm.job_queue:
            self.resync_due = False
            self.zneed = None
            if self.tracking() and self.F.homed():
                self._check_sync("C14", "resync", "disable during an episode")
                if self.U.abs_e and abs(self.F.E - self.U.E) > self._etol() + 1e-9 * abs(self.U.E):
                    self.fail("C14", "resync_e", "after disable during an episode the printer's E is %.6f, "
                              "the file assumes %.6f" % (self.F.E, self.U.E))

    def _api(self, op):
        seams.USER.anon = bool(op.get("anon"))
        if op.get("auto_id") is not None:
            seams.UUID.n = op["auto_id"]
        data = dict(op["data"])
        n0 = len(self.plugin._plugin_manager.messages)
        try:
            res = self.plugin.on_api_command(op["cmd"], data)
        except Exception as ex:
            res = ("EXC", "%s: %s" % (type(ex).__name__, ex))
        seams.USER.anon = False
        self._refresh_regions()
        self.log.append(["api", op["cmd"], op["data"], res, len(self.plugin._plugin_manager.messages) - n0])
        self.stats["fault:region_" + op["cmd"]] += 1
        self.last_api_result = res
        return res

    def _script(self, name, stype="gcode", send=True, part_of_job=True):
        """Script hook invocation (+ queuing of what it returns, as sendGcodeScript does)."""
        active = self.life.active
        tracking = self.tracking()
        ep = self.episode
        if stype != "gcode" or not send:
            exc = None
            try:
                ret = self.plugin.handleScriptHook(self.comm, stype, name)
            except Exception as ex:
                ret, exc = None, "%s: %s" % (type(ex).__name__, ex)
            lines = []
        else:
            ret, exc, lines = self.comm.script(name, (), part_of_job=part_of_job)
        self.log.append(["script", stype, name, ret, exc])
        if exc is not None:
            self.fail("C09", "raise", "script hook raised for %s/%s: %s" % (stype, name, exc))
        expect_prefix = (stype == "gcode" and name == "afterPrintDone" and active and ep)
        if stype == "gcode" and name == "afterPrintDone" and active and not tracking:
            return ret  # unhomed history: not judged
        if expect_prefix and tracking:
            self.stats["probe:episode_closed_by_print_done"] += 1
            self.episode = False
            flush = self.defer.flush()
            ok_shape = isinstance(ret, tuple) and len(ret) == 2 and ret[1] is None and \
                isinstance(ret[0], list)
            if not ok_shape:
                self.fail("C06", "flush_end", "print ended during an episode: script hook returned %r, so neither "
                          "the deferred commands nor the exit script reach the printer" % (ret,))
                self.fail("C15", "prefix", "print ended while excluding: script hook returned %r instead of "
                          "(prefix, None)" % (ret,))
                return ret
            prefix = list(ret[0])
            for s_ in prefix:
                self._check_c07(s_)
            self._check_exit_sequence(prefix, flush, "C06", "flush_end", "afterPrintDone")
            self._check_exit_sequence(prefix, flush, "C15", "flush", "afterPrintDone")
            Fc = copy.deepcopy(self.F)
            for s_ in prefix:
                Fc.run(s_)
            for i, l in enumerate("XYZ"):
                if abs(Fc.pos[i] - self.U.pos[i]) > 1e-6 + 1e-9 * abs(self.U.pos[i]):
                    self.fail("C15", "resync", "executing the afterPrintDone prefix %r leaves the printer at "
                              "%s=%.6f, the file ended at %.6f" % (prefix, l, Fc.pos[i], self.U.pos[i]))
            if self.U.abs_e and abs(Fc.E - self.U.E) > self._etol() + 1e-9 * abs(self.U.E):
                self.fail("C15", "resync_e", "executing the afterPrintDone prefix %r leaves E=%.6f, the file "
                          "ended at %.6f" % (prefix, Fc.E, self.U.E))
            if self.plugin.state.excluding:
                self.fail("C15", "still_excluding", "filter still excluding after the afterPrintDone hook")
            self.afterprint_prefix = [x for x in lines]
        else:
            if ret is not None:
                self.fail("C15", "spurious", "script hook %s/%s (active=%s, episode=%s) contributed %r"
                          % (stype, name, active, ep, ret))
        return ret

    def _print_done(self, op):
        if not self.comm.printing:
            return
        self.comm.pump()
        self.comm.sendCommand("M400", part_of_job=True, src="script")
        self.bus.fire(Events.PRINT_DONE)
        if not op.get("hook_first", True):
            self.bus.deliver_all()
            self.stats["probe:done_event_before_hook"] += 1
        else:
            self.stats["probe:hook_before_done_event"] += 1
        self._script("afterPrintDone")
        self.print_over = True
        for _ in range(op.get("repeat_hook", 0)):
            self._script("afterPrintDone", send=False)
            self.stats["fault:script_hook_repeat"] += 1
        if op.get("deliver_before_pump", False):
            self.bus.deliver_all()
        self.comm.pump()
        self.comm.printing = False
        self.bus.deliver_all()
        self._after_pump()

    def _abort(self, op):
        kind = op.get("kind", "cancel")
        self.stats["fault:abort_" + kind] += 1
        if self.episode:
            self.stats["probe:abort_mid_episode"] += 1
        self.comm.command_queue.clear()
        self.comm.job_queue.clear()
        was_printing = self.comm.printing
        self.comm.printing = False
        self.paused = False
        if kind == "cancel":
            self.bus.fire(Events.PRINT_CANCELLING)
            if was_printing:
                self._script("afterPrintCancelled", part_of_job=False)
            self.bus.fire(Events.PRINT_CANCELLED)
            self.bus.fire(Events.PRINT_FAILED)
        elif kind == "error":
            self.bus.fire(Events.ERROR)
            self.bus.fire(Events.PRINT_FAILED)
        elif kind == "error_only":
            self.bus.fire(Events.ERROR)
        elif kind == "silent":
            pass        # the job just stops: no end event reaches the plugin (restart_no_end)
        else:
            self.bus.fire(Events.PRINT_FAILED)
        if op.get("deliver", True):
            self.bus.deliver_all()
        self.resync_due = False
        self.zneed = None


def prerender(cfg, ops, g90e=False):
    """Sender ops -> plain {"op": "line"} ops (text fixed at generation time), other ops unchanged."""
    r = Renderer(cfg, g90e)
    out = []
    for op in ops:
        if op["op"] in PrintWorld.SENDER_OPS:
            for line in r.render(op):
                r.U.run(line)
                o = {"op": "line", "text": line}
                if "grp" in op:
                    o["grp"] = op["grp"]
                out.append(o)
        else:
            if op["op"] == "print_start":
                r.file_retracted = False
                r.last_e_text = None
            out.append(op)
    return out
