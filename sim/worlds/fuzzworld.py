"""C09 world: wide-grammar command streams through the live hooks *and* the offline stream processor, with the
filter put into every state (episode, owed recovery, disabled, inch, relative, after restart + re-home) before
the odd command arrives.  Only totality and result shape are judged."""
from __future__ import annotations

import hashlib
import io
import json
from collections import Counter

from .. import seams
from ..seams import Events
from ..host import SimComm, SimBus
from ..refprinter import marlin_words

SP = seams._SP_mod


class FuzzViolation(BaseException):
    pass


def shape_problem(raw):
    """None | (None,)-style suppress | non-empty list of non-empty str."""
    if raw is None:
        return None
    if isinstance(raw, tuple):
        if len(raw) >= 1 and raw[0] is None:
            return None
        return "tuple result %r" % (raw,)
    if isinstance(raw, list):
        if not raw:
            return "empty list"
        for x in raw:
            if not isinstance(x, str) or not x:
                return "list element %r" % (x,)
        return None
    return "result of type %s: %r" % (type(raw).__name__, raw)


class FuzzWorld(object):
    def __init__(self, cfg):
        self.cfg = cfg
        seams.reset_run_globals()
        seams.set_g90_influences_extruder(bool(cfg.get("g90e")))
        for k, v in (cfg.get("settings") or {}).items():
            seams.SETTINGS.set(["plugins", "excluderegion", k], v, force=True)
        self.plugin = seams.make_plugin(cfg.get("log", "off"))
        self.comm = SimComm(self.plugin, on_call=self.on_call)
        self.bus = SimBus(self.plugin)
        self.offline = None
        self.eol = cfg.get("eol", "\n")
        self.homed_axes = set()
        self.off_homed = False
        self.active = False
        self.viol = None
        self.log = []
        self.stats = Counter()
        self.abs_states = set()
        self.op_index = -1
        self.ncalls = 0

    def fail(self, clause, msg):
        if self.viol is None:
            self.viol = {"property": "C09", "clause": "C09." + clause, "op": self.op_index, "message": msg}
            raise FuzzViolation()

    def digest(self):
        return hashlib.sha256(json.dumps(self.log, sort_keys=True, default=str).encode()).hexdigest()

    def homed(self):
        return self.active and len(self.homed_axes) == 3

    def on_call(self, call):
        self.ncalls += 1
        code, _s, w = (None, None, {}) if call.cmd.startswith("@") else marlin_words(call.cmd)
        was_homed = self.homed()
        if self.active and call.gcode == "G28" and call.exc is None:
            axes = set(l for l in "XYZ" if l in w) or set("XYZ")
            self.homed_axes |= axes
        self.log.append(["call", call.cmd, repr(call.raw), call.exc, call.at_exc, call.sent])
        judged = was_homed or (call.gcode == "G28" and self.active)
        st = self.plugin.state
        self.abs_states.add((st.excluding, st._exclusionEnabled, st.lastRetraction is not None,
                             bool(st.pendingCommands), st.position.X_AXIS.absoluteMode,
                             st.position.X_AXIS.unitMultiplier, call.gcode if call.gcode in KNOWN else "other",
                             call.exc is not None))
        if not judged:
            if call.exc or call.at_exc:
                self.stats["unhomed_exception"] += 1
            return
        if call.exc is not None:
            self.fail("raise", "handleGcodeQueuing raised on %r: %s" % (call.cmd, call.exc))
        if call.at_exc is not None:
            self.fail("raise_at", "handleAtCommandQueuing raised on %r: %s" % (call.cmd, call.at_exc))
        p = shape_problem(call.raw)
        if p is not None:
            self.fail("shape", "handleGcodeQueuing(%r) returned %s" % (call.cmd, p))
        if call.raw is None:
            self.stats["probe:result_unchanged"] += 1
        elif isinstance(call.raw, tuple):
            self.stats["probe:result_suppress"] += 1
        else:
            self.stats["probe:result_list"] += 1

    def run(self, schedule):
        try:
            for i, op in enumerate(schedule):
                self.op_index = i
                self.step(op)
        except FuzzViolation:
            pass
        return self.viol

    def new_offline(self):
        self.offline = SP.StreamProcessor(io.BytesIO(b""), self.plugin.gcodeHandlers)
        self.off_homed = self.homed()
        self.stats["probe:offline_snapshot"] += 1

    def step(self, op):
        k = op["op"]
        self.stats["op:" + k] += 1
        if k == "cmd":
            text = op["text"]
            if self.comm.printing:
                self.comm.send_file_line(text)
            else:
                self.comm.sendCommand(text, src="terminal")
            if self.offline is not None and op.get("offline", True):
                self.offline_line(text)
        elif k == "start":
            self.comm.printing = True
            self.bus.fire(Events.PRINT_STARTED)
            self.bus.deliver_all()
            self.active = True
            self.homed_axes = set()
            self.offline = None
        elif k == "end":
            self.comm.command_queue.clear()
            self.comm.job_queue.clear()
            self.comm.printing = False
            self.bus.fire(op.get("name", Events.PRINT_CANCELLED))
            self.bus.deliver_all()
            self.active = False
            self.stats["fault:abort"] += 1
        elif k == "pause_resume":
            # pause / resume do not end or restart a job: tracking (and the homed state) must survive them
            self.bus.fire(Events.PRINT_PAUSED)
            self.bus.deliver_all()
            self.bus.fire(Events.PRINT_RESUMED)
            self.bus.deliver_all()
            self.stats["fault:pause_resume"] += 1
        elif k == "offline_new":
            if self.homed():
                self.new_offline()
        elif k == "api":
            seams.USER.anon = False
            try:
                self.plugin.on_api_command(op["cmd"], dict(op["data"]))
            except Exception as ex:
                self.log.append(["api_exc", str(ex)])
            self.stats["fault:region_edit"] += 1
        elif k == "settings":
            for key, v in op["set"].items():
                if key == "g90e":
                    seams.set_g90_influences_extruder(v)
                else:
                    seams.SETTINGS.set(["plugins", "excluderegion", key], v, force=True)
            self.bus.fire(Events.SETTINGS_UPDATED)
            self.bus.deliver_all()
        elif k == "script":
            try:
                ret = self.plugin.handleScriptHook(self.comm, op.get("type", "gcode"), op["name"])
            except Exception as ex:
                ret = None
                if self.homed():
                    self.fail("raise_script", "handleScriptHook raised: %s: %s" % (type(ex).__name__, ex))
            self.log.append(["script", op["name"], repr(ret)])
            if ret is not None and not (isinstance(ret, tuple) and len(ret) == 2 and isinstance(ret[0], list)
                                        and all(isinstance(x, str) and x for x in ret[0]) and ret[1] is None):
                self.fail("shape_script", "handleScriptHook returned %r" % (ret,))
        elif k == "pump":
            self.comm.pump()
        else:
            raise KeyError(k)

    def offline_line(self, text):
        line = text + self.eol
        try:
            out = self.offline.process_line(line)
            exc = None
        except Exception as ex:
            out, exc = None, "%s: %s" % (type(ex).__name__, ex)
        self.log.append(["off", text, out, exc])
        self.ncalls += 1
        if not self.off_homed:
            code, _s, w = marlin_words(text)
            return
        if exc is not None:
            self.fail("raise_offline", "StreamProcessor.process_line raised on %r: %s" % (line, exc))
        if out is not None:
            if not isinstance(out, str) or not out.endswith(self.eol):
                self.fail("shape_offline", "process_line(%r) returned %r" % (line, out))
            self.stats["probe:offline_text"] += 1
        else:
            self.stats["probe:offline_dropped"] += 1


KNOWN = ("G0", "G1", "G2", "G3", "G10", "G11", "G20", "G21", "G28", "G90", "G91", "G92", "M206", "G4", "M204",
         "M205", "M117", "M73")


# ----------------------------------------------------------------------------------------------------------
# grammar
# ----------------------------------------------------------------------------------------------------------
def number(rng, big=True):
    kind = rng.choice(["int", "int", "dec", "dec", "neg", "plus", "ldot", "tdot", "tiny", "huge", "zero", "exp"])
    if big and rng.random() < 0.004:
        return rng.choice(["", "-"]) + str(rng.randrange(1, 10)) + "0" * rng.choice([40, 160, 200, 310])
    if kind == "int":
        return str(rng.randrange(0, 250))
    if kind == "dec":
        return "%.*f" % (rng.randrange(1, 6), rng.uniform(0, 220))
    if kind == "neg":
        return "-%.*f" % (rng.randrange(0, 4), rng.uniform(0, 50))
    if kind == "plus":
        return "+%.*f" % (rng.randrange(0, 4), rng.uniform(0, 50))
    if kind == "ldot":
        return rng.choice(["", "-", "+"]) + ".%d" % rng.randrange(0, 1000)
    if kind == "tdot":
        return "%d." % rng.randrange(0, 200)
    if kind == "tiny":
        return "0." + "0" * rng.randrange(5, 9) + str(rng.randrange(1, 10))
    if kind == "huge":
        return str(rng.randrange(1, 10)) + "0" * (rng.randrange(5, 10) if big else 3)
    if kind == "zero":
        return rng.choice(["0", "0.0", "-0", "00", "0.000"])
    return "%de%d" % (rng.randrange(1, 9), rng.randrange(-3, 4))


def word(rng, letter, big=True):
    l = letter.lower() if rng.random() < 0.12 else letter
    r = rng.random()
    if r < 0.07:
        return l                      # valueless
    sp = " " if rng.random() < 0.1 else ""
    return l + sp + number(rng, big)


def command(rng):
    r = rng.random()
    if r < 0.40:
        code = rng.choice(["G0", "G1", "G1", "G1", "G01", "G00"])
        letters = rng.sample("XYZEF", rng.randrange(0, 6))
        if rng.random() < 0.1 and letters:
            letters.append(rng.choice(letters))          # repeated word
        if rng.random() < 0.1:
            letters.append(rng.choice("ABCPSTIJ"))
        return code + "".join((" " if rng.random() < 0.9 else "") + word(rng, l) for l in letters)
    if r < 0.55:
        code = rng.choice(["G2", "G3", "G02", "G03"])
        form = rng.choice(["ij", "ij", "r", "i", "j", "none", "rp", "zero", "ijr"])
        letters = rng.sample("XYZEF", rng.randrange(0, 5))
        parts = [word(rng, l, big=(l in "EF")) for l in letters]
        small = lambda: rng.choice(["", "-"]) + "%.*f" % (rng.randrange(0, 4), rng.uniform(0, 60))  # noqa: E731
        if form in ("ij", "ijr"):
            parts += ["I" + small(), "J" + small()]
        if form == "i":
            parts += ["I" + small()]
        if form == "j":
            parts += ["J" + small()]
        if form in ("r", "rp", "ijr"):
            parts += ["R" + small()]
        if form == "rp":
            parts += ["P2"]
        if form == "zero":
            parts += [rng.choice(["I0 J0", "R0", "I0", "I0.0 J-0"])]
        if rng.random() < 0.12:
            # an offset / radius word without a value, in place of or after a valued one
            k_ = rng.choice("IJR")
            if rng.random() < 0.5:
                parts = [p for p in parts if p[0].upper() != k_]
            parts.append(k_)
        if rng.random() < 0.1:
            parts = [p.lower() for p in parts]
        rng.shuffle(parts)
        return code + "".join(" " + p for p in parts)
    if r < 0.62:
        return rng.choice(["G10", "G11", "G10 S1", "G11 S1", "G10 P1 L2 X3", "G10 L20 P1", "G10 S", "G11 S0 X1",
                           "G10 p1", "G10 S1 ; long"])
    if r < 0.70:
        return rng.choice(["G20", "G21", "G90", "G91", "G90 X1", "G91.1", "G90.1"])
    if r < 0.76:
        letters = rng.sample("XYZE", rng.randrange(0, 5))
        return "G92" + "".join(" " + word(rng, l, big=False) for l in letters)
    if r < 0.80:
        letters = rng.sample("XYZPT", rng.randrange(0, 4))
        return "M206" + "".join(" " + word(rng, l, big=False) for l in letters)
    if r < 0.84:
        return rng.choice(["G28 X", "G28 Y", "G28 Z", "G28 X Y", "G28 X0 Y0", "G28 O", "G28 W", "G28 x"])
    if r < 0.92:
        return rng.choice(["G4 P%d" % rng.randrange(500), "G4", "M204 P500 T1000", "M204 S", "M205 X8 Y8",
                           "M117 Hello World E5 X1", "M117", "M73 P%d R%d" % (rng.randrange(100), rng.randrange(90)),
                           "M73", "M204 P.5 p7", "M117 ;", "M205 J0.013"])
    if r < 0.97:
        return rng.choice(["M105", "M114", "T0", "T12", "G38.2 Z-10", "M80.1", "M9999", "G5 X1 Y1 I0 J0 P1 Q1",
                           "M104 S210", "G29", "M83", "M82", "G17", "G999 X1e9", "M110 N0", "F1500", "M 117 x"])
    return rng.choice(["@ExcludeRegion disable", "@ExcludeRegion enable", "@ExcludeRegion", "@", "@foo bar",
                       "@ExcludeRegion off now", "@pause"])


def gen_fuzz(rng):
    cfg = {"log": rng.choice(["off", "off", "info", "debug"]), "g90e": rng.random() < 0.4,
           "eol": rng.choice(["\n", "\n", "\r\n"]), "settings": {}, "profile": "C09"}
    if rng.random() < 0.3:
        from .. import gen as _gen
        cfg["settings"] = {"enteringExcludedRegionGcode": _gen.rand_script(rng, "ENTER"),
                           "exitingExcludedRegionGcode": _gen.rand_script(rng, "EXIT")}
    ops = []
    nreg = [0]

    def region(around=None):
        nreg[0] += 1
        cx = rng.uniform(0, 220) if around is None else around[0]
        cy = rng.uniform(0, 220) if around is None else around[1]
        if rng.random() < 0.5:
            d = {"type": "RectangularRegion", "id": "f%d" % nreg[0], "x1": round(cx - rng.uniform(1, 60), 1),
                 "y1": round(cy - rng.uniform(1, 60), 1), "x2": round(cx + rng.uniform(1, 60), 1),
                 "y2": round(cy + rng.uniform(1, 60), 1)}
        else:
            d = {"type": "CircularRegion", "id": "f%d" % nreg[0], "cx": round(cx, 1), "cy": round(cy, 1),
                 "r": round(rng.uniform(1, 80), 1)}
        ops.append({"op": "api", "cmd": "addExcludeRegion", "data": d})

    for _ in range(rng.choice([0, 1, 1, 2, 3])):
        region()
    prints = rng.choice([1, 1, 2, 3])
    for p in range(prints):
        ops.append({"op": "start"})
        ops.append({"op": "cmd", "text": rng.choice(["G28", "G28", "G28 X Y Z", "G28 Z Y X"])})
        if rng.random() < 0.8:
            ops.append({"op": "offline_new"})
        for _ in range(rng.choice([5, 10, 25, 50, 100])):
            r = rng.random()
            if r < 0.86:
                ops.append({"op": "cmd", "text": command(rng)})
            elif r < 0.90:
                region(around=(rng.uniform(0, 60), rng.uniform(0, 60)) if rng.random() < 0.5 else None)
            elif r < 0.92:
                ops.append({"op": "offline_new"})
            elif r < 0.94:
                ops.append({"op": "script", "name": rng.choice(["afterPrintDone", "afterPrintPaused"]),
                            "type": rng.choice(["gcode", "gcode", "snippets"])})
            elif r < 0.96:
                ops.append({"op": "settings", "set": {"g90e": rng.random() < 0.5}})
            elif r < 0.975:
                ops.append({"op": "pump"})
            elif r < 0.985:
                ops.append({"op": "pause_resume"})
            else:
                ops.append({"op": "cmd", "text": rng.choice(["G28", "G28 X", "G28 Y Z"])})
        ops.append({"op": "end", "name": rng.choice(["PrintDone", "PrintCancelled", "PrintFailed", "Error"])})
    return cfg, ops
