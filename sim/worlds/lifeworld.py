"""C11 world: adversarial event bus (delay, duplication, loss, reordering), hooks invoked at arbitrary times,
settings flips.  Oracle: a small lifecycle reference state machine driven by the *delivered* events."""
from __future__ import annotations

import hashlib
import json
from collections import Counter

from .. import seams
from ..seams import Events
from ..host import SimBus
from ..models import LifecycleModel, END_EVENTS
from .printworld import state_snapshot


class LifeViolation(BaseException):
    pass


class RecComm(object):
    def __init__(self):
        self.sent = []
        self.streaming = False

    def isStreaming(self):
        return self.streaming

    def sendCommand(self, cmd, **kw):
        self.sent.append(cmd)


class LifeWorld(object):
    def __init__(self, cfg):
        self.cfg = cfg
        seams.reset_run_globals()
        for k, v in (cfg.get("settings") or {}).items():
            seams.SETTINGS.set(["plugins", "excluderegion", k], v, force=True)
        self.plugin = seams.make_plugin(cfg.get("log", "off"))
        self.bus = SimBus(self.plugin, on_deliver=self.on_deliver)
        self.comm = RecComm()
        self.life = LifecycleModel()
        self.life.clear_after = bool(self.plugin._settings.get_boolean(["clearRegionsAfterPrintFinishes"]))
        self.viol = None
        self.log = []
        self.stats = Counter()
        self.abs_states = set()
        self.op_index = -1
        self.n = 0
        self._before = None
        self.invalid_settings = False

    def fail(self, clause, msg):
        if self.viol is None:
            self.viol = {"property": "C11", "clause": "C11." + clause, "op": self.op_index, "message": msg}
            raise LifeViolation()

    def digest(self):
        return hashlib.sha256(json.dumps(self.log, sort_keys=True, default=str).encode()).hexdigest()

    def region_ids(self):
        return [r.id for r in self.plugin.state.excludedRegions]

    def run(self, schedule):
        try:
            for i, op in enumerate(schedule):
                self.op_index = i
                self.step(op)
        except LifeViolation:
            pass
        return self.viol

    # events --------------------------------------------------------------------------------------------------
    def pre_deliver(self):
        self._before = (self.region_ids(), state_snapshot(self.plugin.state), self.plugin.isActivePrintJob)

    def on_deliver(self, ev, exc):
        self.n += 1
        regs_before, snap_before, act_before = self._before
        was_active = self.life.active
        if ev == Events.SETTINGS_UPDATED:
            self.life.clear_after = bool(self.plugin._settings.get_boolean(["clearRegionsAfterPrintFinishes"]))
        res = self.life.on_event(ev)
        self.log.append(["ev", ev, exc, self.plugin.isActivePrintJob, self.region_ids()])
        if exc is not None:
            if ev == Events.SETTINGS_UPDATED and self.invalid_settings:
                self.stats["probe:settings_update_raised_on_invalid_entry"] += 1
            else:
                self.fail("event_raise", "delivering %s raised %s" % (ev, exc))
        if bool(self.plugin.isActivePrintJob) != self.life.active:
            self.fail("active", "after %s (previous state active=%s) the plugin reports active=%s, the lifecycle "
                      "model says %s" % (ev, was_active, self.plugin.isActivePrintJob, self.life.active))
        regs_after = self.region_ids()
        if res == "cleared":
            self.stats["probe:cleared_on_" + ev] += 1
            if regs_after:
                self.fail("clear", "%s must remove all regions (clear-after-print=%s) but %r remain"
                          % (ev, self.life.clear_after, regs_after))
        else:
            if regs_after != regs_before:
                self.fail("regions", "%s (clear-after-print=%s) changed the region list from %r to %r"
                          % (ev, self.life.clear_after, regs_before, regs_after))
            if ev in END_EVENTS:
                self.stats["probe:end_event_kept_regions"] += 1
        if ev in (Events.PRINT_PAUSED, Events.PRINT_RESUMED) or ev not in KNOWN_EVENTS:
            if state_snapshot(self.plugin.state) != snap_before:
                self.fail("passive_event", "%s changed the filter's tracking state" % (ev,))
            self.stats["probe:passive_event"] += 1
        self.abs_states.add(("ev", ev, was_active, self.life.clear_after, bool(regs_before)))

    # ops -----------------------------------------------------------------------------------------------------
    def step(self, op):
        k = op["op"]
        self.stats["op:" + k] += 1
        if k == "fire":
            self.bus.fire(op["name"], op.get("payload"))
        elif k == "deliver":
            for _ in range(op.get("n", 1)):
                if not self.bus.queue:
                    break
                self.pre_deliver()
                self.bus.deliver(1)
        elif k == "bus":
            getattr(self.bus, op["do"] + "_head")()
            self.stats["fault:evt_" + op["do"]] += 1
        elif k == "settings":
            for key, v in op["set"].items():
                seams.SETTINGS.set(["plugins", "excluderegion", key], v, force=True)
            if op.get("invalid"):
                self.invalid_settings = True
                self.stats["fault:settings_invalid_entry"] += 1
            self.bus.fire(Events.SETTINGS_UPDATED)
            self.stats["fault:settings_flip"] += 1
        elif k == "api":
            seams.USER.anon = False
            try:
                self.plugin.on_api_command(op["cmd"], dict(op["data"]))
            except Exception:
                pass
        elif k == "gcode":
            self.hook_gcode(op["text"], op.get("tags"))
        elif k == "at":
            self.hook_at(op["cmd"], op["params"], op.get("streaming", False))
        elif k == "script":
            self.hook_script(op.get("type", "gcode"), op["name"])
        else:
            raise KeyError(k)

    def hook_gcode(self, cmd, tags=None):
        from octoprint.util.comm import gcode_and_subcode_for_cmd
        g, s = gcode_and_subcode_for_cmd(cmd)
        snap = state_snapshot(self.plugin.state)
        active = self.life.active
        self.n += 1
        try:
            ret = self.plugin.handleGcodeQueuing(self.comm, "queuing", cmd, None, g, subcode=s,
                                                 tags=set(tags or ()))
            exc = None
        except Exception as ex:
            ret, exc = None, "%s: %s" % (type(ex).__name__, ex)
        self.log.append(["gcode", cmd, repr(ret), exc])
        self.abs_states.add(("gcode", g, active, self.plugin.state.excluding))
        if not active:
            self.stats["probe:gcode_while_inactive"] += 1
            if exc is not None:
                self.fail("inactive_raise", "no print active: gcode hook raised on %r: %s" % (cmd, exc))
            if ret is not None:
                self.fail("inactive_altered", "no print active: gcode hook returned %r for %r" % (ret, cmd))
            if state_snapshot(self.plugin.state) != snap:
                self.fail("inactive_tracked", "no print active: gcode hook changed the tracking state on %r" % (cmd,))
        else:
            self.stats["probe:gcode_while_active"] += 1
            # the gate is open: whatever its origin (file, script, terminal), a command that sets a mode is tracked
            pos = self.plugin.state.position
            want = {"G90": ("absoluteMode", True), "G91": ("absoluteMode", False),
                    "G21": ("unitMultiplier", 1.0), "G20": ("unitMultiplier", 25.4)}.get(g)
            if exc is None and want is not None and cmd.strip().upper() == g and \
                    getattr(pos.X_AXIS, want[0]) != want[1]:
                self.fail("active_untracked", "a print is active but %r (tags %r) was not tracked: X axis %s is %r"
                          % (cmd, sorted(tags or ()), want[0], getattr(pos.X_AXIS, want[0])))
            if exc is None and cmd.strip().upper() == "G28" and pos.X_AXIS.current is None:
                self.fail("active_untracked", "a print is active but %r (tags %r) was not tracked: X is unknown"
                          % (cmd, sorted(tags or ())))

    def hook_at(self, cmd, params, streaming):
        snap = state_snapshot(self.plugin.state)
        active = self.life.active
        self.comm.sent = []
        self.comm.streaming = streaming
        self.n += 1
        try:
            self.plugin.handleAtCommandQueuing(self.comm, "queuing", cmd, params, tags=set())
            exc = None
        except Exception as ex:
            exc = "%s: %s" % (type(ex).__name__, ex)
        self.comm.streaming = False
        self.log.append(["at", cmd, params, list(self.comm.sent), exc])
        self.abs_states.add(("at", cmd, active, self.plugin.state.excluding))
        if not active:
            self.stats["probe:at_while_inactive"] += 1
            if exc is not None:
                self.fail("inactive_raise", "no print active: @-hook raised on %r %r: %s" % (cmd, params, exc))
            if self.comm.sent:
                self.fail("inactive_altered", "no print active: @%s %s sent %r" % (cmd, params, self.comm.sent))
            if state_snapshot(self.plugin.state) != snap:
                self.fail("inactive_tracked", "no print active: @%s %s changed the state" % (cmd, params))

    def hook_script(self, stype, name):
        active = self.life.active
        snap = state_snapshot(self.plugin.state)
        self.n += 1
        try:
            ret = self.plugin.handleScriptHook(self.comm, stype, name)
            exc = None
        except Exception as ex:
            ret, exc = None, "%s: %s" % (type(ex).__name__, ex)
        self.log.append(["script", stype, name, repr(ret), exc])
        self.abs_states.add(("script", name, active, self.plugin.state.excluding))
        if not active:
            self.stats["probe:script_while_inactive"] += 1
            if exc is not None:
                self.fail("inactive_raise", "no print active: script hook raised: %s" % (exc,))
            if ret is not None:
                self.fail("inactive_script", "no print active: script hook %s/%s contributed %r" % (stype, name, ret))
            if state_snapshot(self.plugin.state) != snap:
                self.fail("inactive_tracked", "no print active: script hook changed the state")


KNOWN_EVENTS = (Events.FILE_SELECTED, Events.SETTINGS_UPDATED, Events.PRINT_STARTED) + tuple(END_EVENTS)

EVENT_POOL = ["PrintStarted", "PrintStarted", "PrintDone", "PrintFailed", "PrintCancelling", "PrintCancelled", "Error",
              "PrintPaused", "PrintResumed", "FileSelected", "FileDeselected", "Connected", "Disconnected",
              "Upload", "ZChange", "PositionUpdate", "PrinterStateChanged", "FileAdded", "Home"]
GCODES = ["G28", "G1 X10 Y10", "G1 X50 Y50 E1", "G1 Z5", "G1 E-1 F1800", "G1 E1", "G10", "G11", "G91", "G90", "G20",
          "G21", "G92 E0", "G92 X5", "M117 hi", "M204 P500", "G4 P10", "G2 X20 Y20 I5 J5", "M105", "T0", "M206 X1"]


def gen_life(rng):
    cfg = {"log": rng.choice(["off", "off", "info", "debug"]), "settings": {}, "profile": "C11"}
    if rng.random() < 0.4:
        cfg["settings"]["clearRegionsAfterPrintFinishes"] = True
    ops = []
    nid = [0]

    def region():
        nid[0] += 1
        ops.append({"op": "api", "cmd": "addExcludeRegion", "data": {
            "type": "RectangularRegion", "id": "L%d" % nid[0], "x1": rng.randrange(0, 40), "y1": rng.randrange(0, 40),
            "x2": rng.randrange(40, 80), "y2": rng.randrange(40, 80)}})
    for _ in range(rng.choice([0, 1, 2])):
        region()
    adversarial = rng.random() < 0.7
    for _ in range(rng.choice([10, 20, 40, 80])):
        r = rng.random()
        if r < 0.25:
            ev = {"op": "fire", "name": rng.choice(EVENT_POOL)}
            if ev["name"].startswith("Print") and rng.random() < 0.5:
                ev["payload"] = {"name": "a.gcode", "path": "a.gcode", "origin": rng.choice(["local", "sdcard"])}
            ops.append(ev)
            if rng.random() < 0.6:
                ops.append({"op": "deliver", "n": 1})
        elif r < 0.40:
            ops.append({"op": "deliver", "n": rng.choice([1, 1, 2, 5])})
        elif r < 0.48 and adversarial:
            ops.append({"op": "bus", "do": rng.choice(["dup", "drop", "swap"])})
        elif r < 0.70:
            o = {"op": "gcode", "text": rng.choice(GCODES)}
            if rng.random() < 0.6:
                # the tags OctoPrint attaches: a line of the file, of a GCODE script, from the terminal / API
                o["tags"] = rng.choice([["source:file", "filepos:1234", "fileline:56"],
                                        ["source:script", "script:afterPrintPaused"],
                                        ["source:script", "script:beforePrintResumed"],
                                        ["source:api", "trigger:printer.commands"],
                                        ["source:plugin", "plugin:other"]])
            ops.append(o)
        elif r < 0.78:
            ops.append({"op": "at", "cmd": rng.choice(["ExcludeRegion", "ExcludeRegion", "foo", ""]),
                        "params": rng.choice(["disable", "enable", "off", "on", "", "bogus"]),
                        "streaming": rng.random() < 0.15})
        elif r < 0.88:
            ops.append({"op": "script", "type": rng.choice(["gcode", "gcode", "gcode", "snippets"]),
                        "name": rng.choice(["afterPrintDone", "afterPrintDone", "beforePrintStarted",
                                            "afterPrintCancelled", "afterPrintPaused"])})
        elif r < 0.94:
            st = {"clearRegionsAfterPrintFinishes": rng.choice([True, False, True, False, "false", "true", "no", 0, 1])}
            if rng.random() < 0.15:
                st["atCommandActions"] = [{"command": "ExcludeRegion", "parameterPattern": "(unclosed",
                                           "action": "disable_exclusion", "description": "bad"}]
                ops.append({"op": "settings", "set": st, "invalid": True})
            else:
                ops.append({"op": "settings", "set": st})
        else:
            region()
    ops.append({"op": "deliver", "n": 50})
    return cfg, ops
