"""Seeded generator for PRINT-world schedules.  Plays an abstract world forward (tool position, regions,
enabled flag, retract state) so that moves can be aimed into / onto the border of / just beside / far
from regions and faults can be placed where state is in flight.  The PRNG handed in is the only source of
randomness."""
from __future__ import annotations

import math

from .models import depth

BED = 200.0

OTHER_CODES = ["M117 layer %d", "M204 P%d T1000", "M204 S%d", "M205 X%d", "M73 P%d R10", "G4 P%d", "M73 P0 R25",
               "M205 S0 T0", "M204 S0",
               "M106 S%d", "M104 S%d", "M105", "T0", "M220 S%d", "M400", "M9999 X%d", "M117 hello world",
               "M73 P%d", "M205 J0.0%d", "G29", "M862.1 P0.4", "M80.1", "G38.3 F%d", "M862.3 P1"]
AT_NOOP = ["@ExcludeRegion status", "@ExcludeRegion", "@foo bar", "@ExcludeRegion enabled-ish",
           "@excluderegion disable", "@ExcludeRegionX disable", "@pausex", "@ExcludeRegion  xdisable"]
TERMINAL = ["M105", "M114", "M117 from terminal", "M106 S0", "M155 S2", "M73 P1"]


def r2(v, nd=2):
    return round(v, nd) + 0.0


class G(object):
    def __init__(self, rng, knobs):
        self.r = rng
        self.k = knobs
        self.ops = []
        self.grp = 0
        self.x = self.y = 0.0
        self.z = 0.0
        self.regions = {}     # id -> dict
        self.enabled = True
        self.active = False
        self.retracted = False
        self.rel = False
        self.inch = False
        self.ep = False       # True / False / None (unknown, e.g. after a border hit)
        self.nid = 0
        self.may_shrink = False
        self.paused = False
        self.fw = False
        self.rlen = 1.0
        self.g92_used = False
        self.last_end_silent = False

    # -- helpers --------------------------------------------------------------------------------------
    def emit(self, **op):
        self.ops.append(op)
        return op

    def new_grp(self):
        self.grp += 1
        return self.grp

    def inside(self, x, y):
        """True / False / None(border-ish) against the abstract region set."""
        res = False
        for reg in self.regions.values():
            d = depth(reg, x, y)
            if d > 0.005:
                return True
            if d >= -0.005:
                res = None
        return res

    def rand_region(self, around=None):
        r = self.r
        if around is None:
            cx, cy = r2(r.uniform(20, 180), 1), r2(r.uniform(20, 180), 1)
        else:
            cx, cy = r2(around[0] + r.uniform(-3, 3), 1), r2(around[1] + r.uniform(-3, 3), 1)
        self.nid += 1
        rid = "r%d" % self.nid
        if r.random() < 0.5:
            w, h = r2(r.uniform(2, 25), 1), r2(r.uniform(2, 25), 1)
            d = {"type": "RectangularRegion", "id": rid, "x1": r2(cx - w, 1), "y1": r2(cy - h, 1),
                 "x2": r2(cx + w, 1), "y2": r2(cy + h, 1)}
            if r.random() < 0.15:   # corners given in the other order (one axis, the other, or both)
                d["x1"], d["x2"] = d["x2"], d["x1"]
            if r.random() < 0.15:
                d["y1"], d["y2"] = d["y2"], d["y1"]
        else:
            d = {"type": "CircularRegion", "id": rid, "cx": cx, "cy": cy, "r": r2(r.uniform(2, 25), 1)}
            if r.random() < 0.03:
                d["r"] = -d["r"]      # a client can send it; such a circle excludes nothing
        if d["type"] == "RectangularRegion" and r.random() < 0.02:
            d[r.choice(["x1", "y1", "x2", "y2"])] = float("nan")   # JSON NaN passes float(): excludes nothing
        return d

    def norm(self, d):
        from .models import norm_region
        return norm_region(d)

    @staticmethod
    def finite(reg):
        """Stand-in with finite edges for aiming at a rectangle that has a not-a-number edge."""
        if reg["type"] != "RectangularRegion" or all(reg[k] == reg[k] for k in ("x1", "y1", "x2", "y2")):
            return reg
        q = dict(reg)
        for lo, hi in (("x1", "x2"), ("y1", "y2")):
            if q[lo] != q[lo] and q[hi] != q[hi]:
                q[lo], q[hi] = 80.0, 120.0
            elif q[lo] != q[lo]:
                q[lo] = q[hi] - 30.0
            elif q[hi] != q[hi]:
                q[hi] = q[lo] + 30.0
        return q

    def point_in(self, reg):
        reg = self.finite(reg)
        r = self.r
        if reg["type"] == "RectangularRegion":
            w, h = reg["x2"] - reg["x1"], reg["y2"] - reg["y1"]
            return (r2(reg["x1"] + w * r.uniform(0.05, 0.95)), r2(reg["y1"] + h * r.uniform(0.05, 0.95)))
        a = r.uniform(0, 2 * math.pi)
        q = reg["r"] * r.uniform(0, 0.9)
        return (r2(reg["cx"] + q * math.cos(a)), r2(reg["cy"] + q * math.sin(a)))

    def point_border(self, reg):
        reg = self.finite(reg)
        r = self.r
        if reg["type"] == "RectangularRegion":
            side = r.randrange(4)
            t = r.uniform(0, 1)
            if side == 0:
                return (reg["x1"], r2(reg["y1"] + (reg["y2"] - reg["y1"]) * t))
            if side == 1:
                return (reg["x2"], r2(reg["y1"] + (reg["y2"] - reg["y1"]) * t))
            if side == 2:
                return (r2(reg["x1"] + (reg["x2"] - reg["x1"]) * t), reg["y1"])
            return (r2(reg["x1"] + (reg["x2"] - reg["x1"]) * t), reg["y2"])
        side = r.randrange(4)
        return [(reg["cx"] + reg["r"], reg["cy"]), (reg["cx"] - reg["r"], reg["cy"]),
                (reg["cx"], reg["cy"] + reg["r"]), (reg["cx"], reg["cy"] - reg["r"])][side]

    def point_beside(self, reg):
        reg = self.finite(reg)
        r = self.r
        off = r.choice([0.01, 0.05, 0.3, 1.0])
        if reg["type"] == "RectangularRegion":
            bx, by = self.point_border(reg)
            if bx == reg["x1"]:
                return (r2(bx - off), by)
            if bx == reg["x2"]:
                return (r2(bx + off), by)
            if by == reg["y1"]:
                return (bx, r2(by - off))
            return (bx, r2(by + off))
        a = r.uniform(0, 2 * math.pi)
        q = reg["r"] + off + 0.01
        return (r2(reg["cx"] + q * math.cos(a)), r2(reg["cy"] + q * math.sin(a)))

    def point_far(self):
        r = self.r
        m = self.k.get("clear_margin", 0.05) if self.k.get("clear_path") else 0.005
        for _ in range(200):
            p = (r2(r.uniform(0, BED)), r2(r.uniform(0, BED)))
            if not self.inside_margin(p[0], p[1], m):
                return p
        return (self.x, self.y)

    def clear_of_path(self, reg, pts, margin=1.0):
        return all(depth(reg, x, y) < -margin for (x, y) in pts)

    # -- op emitters ------------------------------------------------------------------------------------
    def prologue(self):
        k = self.k
        if k.get("clear_path"):
            for rid in sorted(self.regions):
                if depth(self.regions[rid], 0.0, 0.0) > -1.0:
                    self.emit(op="api", cmd="deleteExcludeRegion", data={"id": rid})
                    del self.regions[rid]
        self.emit(op="print_start")
        self.active = True
        self.enabled = True
        self.ep = False
        self.retracted = False
        self.rel = self.inch = False
        self.emit(op="units", inch=False)
        self.emit(op="mode", rel=False)
        if self.r.random() < 0.3:
            self.emit(op="line", text="M82")
        self.emit(op="home")
        self.x = self.y = self.z = 0.0
        self.emit(op="g92e", e=0.0)
        if k.get("disable_at_start"):
            self.emit(op="line", text="@ExcludeRegion disable")
            self.enabled = False
        self.z = 0.3
        self.emit(op="move", g=1, z=0.3, f=3000)
        if k.get("start_inch") and self.r.random() < k["start_inch"]:
            self.inch = True
            self.emit(op="units", inch=True)
        if k.get("start_rel") and self.r.random() < k["start_rel"]:
            self.rel = True
            self.emit(op="mode", rel=True)

    def move(self, aim=None, axes=None):
        r, k = self.r, self.k
        regs = list(self.regions.values())
        if aim is None:
            if regs:
                aim = r.choices(["into", "border", "beside", "far"], k.get("aim_w", [35, 8, 12, 45]))[0]
            else:
                aim = "far"
        if k.get("clear_path"):
            aim = "far"
        if aim == "far" or not regs:
            tx, ty = self.point_far()
        else:
            reg = r.choice(regs)
            tx, ty = {"into": self.point_in, "border": self.point_border, "beside": self.point_beside}[aim](reg)
        if axes is None:
            axes = r.choices(["XY", "X", "Y", "XYZ", "Z"], k.get("axes_w", [60, 10, 10, 10, 10]))[0]
        if aim == "far":
            # special values: exactly 0 (a zero-valued word), the current coordinate (a zero offset in
            # relative mode), small round numbers whose relative sums leave float residue
            sp = r.random()
            p_special = k.get("p_special", 0.08)
            if sp < p_special:
                tx = r.choice([0.0, self.x, 0.1, 0.2, 0.3])
            elif sp < 2 * p_special:
                ty = r.choice([0.0, self.y, 0.1, 0.2, 0.3])
            elif sp < 2.3 * p_special:
                tx, ty = 0.0, 0.0
            if k.get("huge") and r.random() < k["huge"]:
                if r.random() < 0.5:
                    tx = r.choice([1e16, 3e18, 2e20, -4e17])
                else:
                    ty = r.choice([1e16, 3e18, 2e20, -4e17])
            if k.get("clear_path") and self.inside_margin(tx, ty, k.get("clear_margin", 0.05)):
                tx, ty = self.point_far()
        nx, ny, nz = self.x, self.y, self.z
        op = {"op": "move"}
        if "X" in axes:
            nx = tx
            op["x"] = nx
        if "Y" in axes:
            ny = ty
            op["y"] = ny
        if "Z" in axes:
            nz = max(0.1, r2(self.z + r.choice([0.2, 0.2, -0.2, 1.0, -1.0, 5.0]), 2))
            if k.get("tiny_z") and r.random() < k["tiny_z"]:
                nz = r.choice([0.0, 0.1, 0.2, 0.3])
            op["z"] = nz
        if k.get("clear_path") and self.inside_margin(nx, ny, k.get("clear_margin", 0.05)):
            # single-axis combination would end in/near a region: use the full far point instead
            nx, ny = tx, ty
            op["x"], op["y"] = nx, ny
            if self.inside_margin(nx, ny, k.get("clear_margin", 0.05)):
                return
        de = None
        if not self.retracted and axes != "Z" and r.random() < k.get("p_extrude", 0.6):
            de = r2(r.uniform(0.01, 2.0), 4)
            if k.get("tiny_e") and r.random() < k["tiny_e"]:
                de = r.choice([1e-4, 3e-5, 1e-5, 2e-6])
        elif not self.retracted and r.random() < k.get("p_extrude_z", 0.0):
            de = r2(r.uniform(0.01, 0.5), 4)
        if de is not None:
            op["de"] = de
        elif k.get("p_e_same") and r.random() < k["p_e_same"]:
            op["e_same"] = True      # a travel move that restates the current E coordinate (legal, extrudes nothing)
        if r.random() < 0.3:
            op["f"] = r.choice([600, 1200, 1800, 3000, 6000, 9000])
        op["g"] = 0 if (de is None and r.random() < 0.5) else 1
        self.x, self.y, self.z = nx, ny, nz
        self.ops.append(op)
        self.ep = self.inside(nx, ny) if self.enabled else False

    def inside_margin(self, x, y, margin):
        return any(depth(reg, x, y) > -margin for reg in self.regions.values())

    def arc(self):
        r, k = self.r, self.k
        rad = r2(r.uniform(1.5, 30), 2)
        a = r.uniform(0, 2 * math.pi)
        ci, cj = r2(rad * math.cos(a), 3), r2(rad * math.sin(a), 3)
        if not (ci or cj):
            return
        sweep = r2(r.uniform(0.15, 2 * math.pi - 0.05), 3)
        if r.random() < 0.08:
            sweep = r2(2 * math.pi, 6)
        omit = None
        if r.random() < 0.15:
            # centre straight along one axis (the other offset word is exactly 0) and half a turn: the end
            # point then shares one coordinate with the start, and that axis word is left out
            if r.random() < 0.5:
                ci, cj, omit = 0.0, r2(rad * r.choice([-1, 1]), 3), "x"
            else:
                ci, cj, omit = r2(rad * r.choice([-1, 1]), 3), 0.0, "y"
            sweep = math.pi
        cw = r.random() < 0.5
        cx, cy = self.x + ci, self.y + cj
        rr = math.hypot(ci, cj)
        a0 = math.atan2(-cj, -ci)
        n = max(16, int(sweep * rr / 0.1))
        best = -1e9
        pts = []
        for i in range(n + 1):
            aa = a0 - sweep * i / n if cw else a0 + sweep * i / n
            px, py = cx + rr * math.cos(aa), cy + rr * math.sin(aa)
            pts.append((px, py))
            for reg in self.regions.values():
                best = max(best, depth(reg, px, py))
        ex_, ey_ = pts[-1]
        if not (-20 <= ex_ <= BED + 20 and -20 <= ey_ <= BED + 20):
            return
        if k.get("clear_path") and best > -max(0.05, k.get("clear_margin", 0.05)):
            return
        if k.get("arc_margin") and (-0.5 < best < 1.0 or sweep > 2 * math.pi - 0.3):
            return     # C08: no shallow arcs and no (nearly) closed ones, whose sweep hangs on the last bit
        op = {"op": "arc", "cw": cw, "ci": ci, "cj": cj, "sweep": sweep}
        if omit:
            op["omit"] = omit
        if r.random() < 0.15:
            self.z = max(0.1, r2(self.z + r.choice([0.2, -0.2, 1.0]), 2))
            op["z"] = self.z
        if not self.retracted and r.random() < k.get("p_extrude", 0.6):
            op["de"] = r2(r.uniform(0.01, 2.0), 4)
        if r.random() < 0.3:
            op["f"] = r.choice([600, 1200, 3000, 6000])
        self.ops.append(op)
        self.x, self.y = r2(ex_, 4), r2(ey_, 4)
        unitlen = 25.4 if self.inch else 1.0
        if not self.enabled:
            self.ep = False
        elif best > 0.5 * unitlen + 0.05:
            self.ep = True
        elif best < -0.05:
            self.ep = False
        else:
            self.ep = None

    def retract_cycle_step(self):
        r = self.r
        if not self.retracted:
            self.cyc = self.new_grp()
            op = {"op": "retract", "grp": self.cyc}
            if self.fw:
                op["fw"] = True
                if r.random() < 0.3:
                    op["params"] = r.choice(["S1", "S0"])
                    self.cyc_params = op["params"]
                else:
                    self.cyc_params = None
            else:
                op["len"] = self.rlen
                op["f"] = r.choice([1800, 2400, 3600])
                if self.k.get("wipe") and r.random() < self.k["wipe"]:
                    # Slic3r-style wipe: the retraction rides on an X/Y move
                    tx, ty = self.point_far() if r.random() < 0.5 or not self.regions else \
                        self.point_in(r.choice(list(self.regions.values())))
                    op = {"op": "move", "g": 1, "x": tx, "y": ty, "de": -self.rlen, "wipe": True, "grp": self.cyc}
                    self.x, self.y = tx, ty
                    self.ep = self.inside(tx, ty) if self.enabled else False
            self.ops.append(op)
            self.retracted = True
        elif (not self.fw) and self.k.get("double_retract") and r.random() < self.k["double_retract"]:
            self.ops.append({"op": "retract", "grp": self.cyc, "extra": True, "len": r.choice([0.2, 0.5, self.rlen]),
                             "f": r.choice([1800, 2400])})
        else:
            op = {"op": "recover", "grp": self.cyc}
            if self.fw:
                if getattr(self, "cyc_params", None):
                    op["params"] = self.cyc_params
            else:
                op["f"] = r.choice([1800, 2400, 3600])
            self.ops.append(op)
            self.retracted = False

    def region_add(self):
        r, k = self.r, self.k
        where = r.random()
        if k.get("clear_path"):
            return self.region_add_clear()
        if where < k.get("p_add_under", 0.4):
            d = self.rand_region(around=(self.x, self.y))
        else:
            d = self.rand_region()
        op = {"op": "api", "cmd": "addExcludeRegion", "data": d}
        if r.random() < 0.2:
            d = dict(d)
            d.pop("id")
            op["data"] = d
            op["auto_id"] = 1000 + self.nid
            rid = "auto-%06d" % (1000 + self.nid + 1)
        else:
            rid = d["id"]
        self.ops.append(op)
        nd = self.norm(dict(d, id=rid))
        self.regions[rid] = nd

    def region_add_clear(self):
        """C02: a region that stays clear of the tool position now; the path generator avoids it later."""
        for _ in range(10):
            d = self.rand_region()
            nd = self.norm(d)
            if depth(nd, self.x, self.y) < -1.0:
                self.ops.append({"op": "api", "cmd": "addExcludeRegion", "data": d})
                self.regions[d["id"]] = nd
                return

    def region_grow(self):
        r = self.r
        if not self.regions:
            return
        rid = r.choice(sorted(self.regions))
        old = self.regions[rid]
        g = r.choice([0.0, 0.5, 2.0, 10.0])
        if old["type"] == "RectangularRegion":
            d = {"type": "RectangularRegion", "id": rid, "x1": r2(old["x1"] - g, 2), "y1": r2(old["y1"] - g, 2),
                 "x2": r2(old["x2"] + g, 2), "y2": r2(old["y2"] + g, 2)}
        else:
            d = {"type": "CircularRegion", "id": rid, "cx": old["cx"], "cy": old["cy"], "r": r2(old["r"] + g, 2)}
        if self.k.get("clear_path") and depth(self.norm(d), self.x, self.y) > -1.0:
            return
        self.ops.append({"op": "api", "cmd": "updateExcludeRegion", "data": d})
        self.regions[rid] = self.norm(d)

    def region_shrink_or_delete(self):
        r = self.r
        if not self.regions or not self.may_shrink:
            return self.region_refused()
        rid = r.choice(sorted(self.regions))
        if r.random() < 0.5:
            self.ops.append({"op": "api", "cmd": "deleteExcludeRegion", "data": {"id": rid}})
            del self.regions[rid]
        else:
            old = self.regions[rid]
            if old["type"] == "RectangularRegion":
                d = {"type": "RectangularRegion", "id": rid, "x1": r2(old["x1"] + 1, 2), "y1": r2(old["y1"] + 1, 2),
                     "x2": r2(max(old["x1"] + 1, old["x2"] - 1), 2), "y2": r2(max(old["y1"] + 1, old["y2"] - 1), 2)}
            else:
                d = {"type": "CircularRegion", "id": rid, "cx": old["cx"], "cy": old["cy"],
                     "r": r2(old["r"] * 0.5, 2)}
            self.ops.append({"op": "api", "cmd": "updateExcludeRegion", "data": d})
            self.regions[rid] = self.norm(d)

    def region_refused(self):
        """Requests that must change nothing: anonymous, bad type, duplicate id, unknown id, refused delete."""
        r = self.r
        kind = r.choice(["anon", "badtype", "dup", "unknown", "delete_refused"])
        if kind == "anon":
            self.ops.append({"op": "api", "cmd": "addExcludeRegion", "anon": True, "data": self.rand_region()})
        elif kind == "badtype":
            self.ops.append({"op": "api", "cmd": "addExcludeRegion", "data": {"type": "Triangle", "id": "zz"}})
        elif kind == "dup" and self.regions:
            rid = r.choice(sorted(self.regions))
            d = self.rand_region()
            d["id"] = rid
            self.ops.append({"op": "api", "cmd": "addExcludeRegion", "data": d})
        elif kind == "unknown":
            d = self.rand_region()
            d["id"] = "nope"
            self.ops.append({"op": "api", "cmd": "updateExcludeRegion", "data": d})
        elif kind == "delete_refused" and self.regions and not self.may_shrink and self.active:
            rid = r.choice(sorted(self.regions))
            self.ops.append({"op": "api", "cmd": "deleteExcludeRegion", "data": {"id": rid}})

    def at_switch(self):
        r = self.r
        custom = self.k.get("custom_at")
        if custom == "none":
            self.ops.append({"op": "line", "text": r.choice(["@ExcludeRegion disable", "@ExcludeRegion off",
                                                              "@ExcludeRegion enable", "@Excl stop"])})
            return
        redundant = r.random() < 0.15   # disable while disabled / enable while enabled
        want_disable = self.enabled ^ redundant
        if want_disable:
            pool = ["@ExcludeRegion disable", "@ExcludeRegion off", "@ExcludeRegion  disable now"]
            if custom:
                pool = ["@Excl stop", "@RegionsOff", "@RegionsOff whatever"] + (pool if custom == "both" else [])
            self.enabled = False
            self.ep = False
        else:
            pool = ["@ExcludeRegion enable", "@ExcludeRegion on"]
            if custom:
                pool = ["@Excl go", "@Excl gone", "@RegionsOn", "@RegionsOn x"] + (pool if custom == "both" else [])
            self.enabled = True
            self.ep = False   # after re-enabling, the next *move* decides
            if self.k.get("after_enable_moves"):
                self.after_enable = r.randrange(1, 4)
        if r.random() < self.k.get("p_foreign_at", 0.0):
            # a command that belongs to a configuration which is *not* in effect (renamed / removed action, or a
            # parameter that merely contains the trigger word): must change nothing -- undo the bookkeeping above
            self.enabled = not self.enabled if not redundant else self.enabled
            foreign = {None: ["@Excl stop", "@RegionsOff", "@Excl go", "@RegionsOn"],
                       "only": ["@ExcludeRegion disable", "@ExcludeRegion enable", "@ExcludeRegion off"],
                       "none": ["@ExcludeRegion disable", "@ExcludeRegion off", "@Excl stop", "@RegionsOff"],
                       "both": ["@Excl stopping", "@Excl2 off"]}[custom if custom in ("only", "both", "none") else None]
            foreign += ["@Excl2 keep region 2 off limits", "@Excl2 part one done", "@Excl xgo", "@Excl please stop"]
            if custom in (None, "both"):
                # patterns are plain (case-sensitive) regular expressions
                foreign += ["@ExcludeRegion OFF", "@ExcludeRegion Enable", "@ExcludeRegion DISABLE", "@ExcludeRegion On"]
            self.ops.append({"op": "line", "text": r.choice(foreign)})
            return
        self.ops.append({"op": "line", "text": r.choice(pool)})

    def settings_change(self):
        """Deferral modes / scripts / flags change; only while no episode is open (executor enforces it)."""
        r = self.r
        what = r.choice(["modes", "enter", "exit", "flags"])
        st = {}
        if what == "modes":
            st["extendedExcludeGcodes"] = rand_deferral_config(r)
            self.k["configured"] = [e["gcode"] for e in st["extendedExcludeGcodes"]]
        elif what == "enter":
            st["enteringExcludedRegionGcode"] = rand_script(r, "ENTER")
        elif what == "exit":
            st["exitingExcludedRegionGcode"] = rand_script(r, "EXIT")
        else:
            self.k["clear_after"] = r.random() < 0.5
            st["clearRegionsAfterPrintFinishes"] = self.k["clear_after"]
        op = {"op": "settings", "set": st}
        if not self.k.get("settings_anytime"):
            op["needs_no_episode"] = True
        self.ops.append(op)

    def at_config_change(self):
        """The configured @-actions change mid-run (renamed / removed commands must stop working)."""
        r = self.r
        from .worlds.printworld import DEFAULT_AT_ACTIONS
        which = r.choice([None, "only", "both", "none", "interleaved"])
        if self.k.get("at_broken") and r.random() < 0.3:
            # a saved list with an entry that cannot be constructed (a typo in its pattern), sorting first: the
            # update fails as a whole, the actions configured before stay in effect
            store = [{"command": "Aa", "parameterPattern": r.choice(["(", "[a-", "*x"]), "action": "disable_exclusion",
                      "description": "typo"}] + list(DEFAULT_AT_ACTIONS)
            self.ops.append({"op": "settings", "set": {"atCommandActions": store}})
            return
        if which is None:
            acts = list(DEFAULT_AT_ACTIONS)
        elif which == "interleaved":
            acts = list(INTERLEAVED_AT)
            which = None           # the default command texts stay the ones in effect
        elif which == "none":
            acts = []              # the user removed every action: no @-command may do anything
        elif which == "only":
            acts = list(CUSTOM_AT)
        else:
            acts = list(CUSTOM_AT) + list(DEFAULT_AT_ACTIONS)
            r.shuffle(acts)
        self.k["custom_at"] = which
        self.ops.append({"op": "settings", "set": {"atCommandActions": acts}})

    def misc(self, kind):
        r = self.r
        if kind == "other":
            conf = self.k.get("configured")
            if conf and r.random() < self.k.get("p_configured", 0.7):
                t = rand_code_line(r, r.choice(conf))
            else:
                t = r.choice(self.k.get("other_codes", OTHER_CODES))
                if "%d" in t:
                    t = t % r.randrange(1, 999)
            self.emit(op="line", text=t)
        elif kind == "settings_change":
            self.settings_change()
        elif kind == "at_config":
            self.at_config_change()
        elif kind == "rehome":
            if self.ep is False:
                axes = r.choice([None, ["X", "Y"], ["X"], ["Y"], ["Z"], ["X", "Y", "Z"]])
                self.emit(op="home", axes=axes, needs_no_episode=True)
                for a in (axes or ["X", "Y", "Z"]):
                    if a == "X":
                        self.x = 0.0
                    elif a == "Y":
                        self.y = 0.0
                    else:
                        self.z = 0.0
                self.ep = self.inside(self.x, self.y) if self.enabled else False
                if self.ep is not False:
                    self.move(aim="far", axes="XY")
        elif kind == "upload":
            if not getattr(self, "_uploading", False) or r.random() < 0.1:
                self.emit(op="upload_new")
                self._uploading = True
            for _ in range(r.randrange(1, 4)):
                t = r.choice(["G1 X%.2f Y%.2f" % (r.uniform(0, BED), r.uniform(0, BED)), "G91", "G90", "G20", "G21",
                              "G1 X%.1f" % r.uniform(0, BED), "G1 Z%.1f" % r.uniform(0, 20), "G28", "G1 E-1 F1800",
                              "G1 E1", "G10", "G11", "@ExcludeRegion disable", "@ExcludeRegion enable", "G92 E0",
                              "M117 offline"])
                if self.regions and r.random() < 0.4:
                    px, py = self.point_in(r.choice(list(self.regions.values())))
                    t = "G1 X%.2f Y%.2f E1" % (px, py)
                elif self.k.get("configured") and r.random() < 0.4:
                    t = rand_code_line(r, r.choice(self.k["configured"]))
                self.emit(op="upload_line", text=t + "\n")
        elif kind == "script_hook":
            self.emit(op="script_hook", name=r.choice(["beforePrintStarted", "afterPrintCancelled",
                      "afterPrintPaused", "beforePrintResumed", "afterPrinterConnected", "snippets/foo",
                      "afterPrintDone"]), type=r.choice(["snippets", "foo", "GCODE"]))
            if r.random() < 0.5:
                self.ops[-1]["type"] = "gcode"
                self.ops[-1]["name"] = r.choice(["beforePrintStarted", "afterPrintCancelled", "afterPrintPaused",
                                                 "beforePrintResumed", "afterprintdone", "afterPrintDone2"])
        elif kind == "at_noop":
            self.emit(op="line", text=r.choice(AT_NOOP))
        elif kind == "terminal":
            self.emit(op="terminal", text=r.choice(TERMINAL))
        elif kind == "pump":
            self.emit(op="pump")
        elif kind == "clock":
            c = r.choice([{"skew": 3600.0}, {"skew": -86400.0 * 365}, {"freeze": True}, {"freeze": False},
                          {"skew": 1e12}, {"skew": 0.0}])
            self.emit(op="clock", **c)
        elif kind == "logfail":
            self.emit(op="logfail", on=r.random() < 0.7)
        elif kind == "pause":
            g = self.new_grp()
            self.emit(op="pause", grp=g)
            for _ in range(r.randrange(0, 3)):
                self.emit(op="terminal", text=r.choice(TERMINAL), grp=g)
            self.emit(op="resume", grp=g)
            self.emit(op="deliver", grp=g)
        elif kind == "api_get":
            self.emit(op="api_get")
        elif kind == "settings_same":
            self.emit(op="settings", set={})
        elif kind == "g92e":
            op = {"op": "g92e", "e": r.choice([0.0, 0.0, r2(r.uniform(0, 500), 3)])}
            if self.k.get("p_terminal_g92e") and r.random() < self.k["p_terminal_g92e"]:
                op["via"] = "terminal"       # typed into the terminal while the job runs
            self.ops.append(op)
        elif kind == "prime":
            if not self.retracted:
                # extrusion in place (nozzle priming / purge blob): an E-only move that is not a recovery
                self.emit(op="move", g=1, de=r2(r.uniform(0.05, 3.0), 4), f=r.choice([None, 300, 1200]))
        elif kind == "mode":
            self.rel = not self.rel
            self.emit(op="mode", rel=self.rel)
        elif kind == "units":
            self.inch = not self.inch
            self.emit(op="units", inch=self.inch)
        elif kind == "g92xyz":
            if self.ep is False and not self.rel:
                op = {"op": "g92", "needs_no_episode": True}
                for l in r.choice(["x", "y", "z", "xy", "xyz"]):
                    op[l] = r2(r.uniform(-50, 50), 2)
                self.ops.append(op)
                self.g92_used = True
        elif kind == "sd_stream_at":
            g = self.new_grp()
            self.emit(op="sd_stream", on=True, grp=g)
            self.emit(op="line", text=r.choice(["@ExcludeRegion disable", "@ExcludeRegion enable"]), grp=g)
            self.emit(op="sd_stream", on=False, grp=g)

    def body(self, n):
        k = self.k
        kinds = list(k["w"].keys())
        weights = [k["w"][x] for x in kinds]
        for it in range(n):
            kind = self.r.choices(kinds, weights)[0]
            if it == 0 and k.get("c08"):
                self.move(aim="far", axes="XY")     # translation twin: the path proper starts with a full XY move
                continue
            if getattr(self, "after_enable", 0) > 0 and kind not in ("at_switch",):
                # right after re-enabling prefer single-axis (and relative) moves: they depend on the
                # position tracked while exclusion was off
                self.after_enable -= 1
                self.move(axes=self.r.choice(["X", "Y", "Z", "X", "Y"]))
                continue
            if kind == "move":
                self.move()
            elif kind == "arc":
                if self.rel and k.get("rel_arcs") is False:
                    self.move()
                else:
                    self.arc()
            elif kind == "retract":
                self.retract_cycle_step()
            elif kind == "region_add":
                self.region_add()
            elif kind == "region_grow":
                self.region_grow()
            elif kind == "region_shrink":
                self.region_shrink_or_delete()
            elif kind == "region_refused":
                self.region_refused()
            elif kind == "at_switch":
                self.at_switch()
            else:
                self.misc(kind)

    def end_print(self, clean=None):
        r, k = self.r, self.k
        if self.retracted and k.get("close_cycles", True):
            self.retract_cycle_step()
        if k.get("p_end_inside") and self.regions and self.enabled and r.random() < k["p_end_inside"]:
            self.move(aim="into", axes="XY")
            for _ in range(r.randrange(0, 3)):
                self.misc("other")
        self.last_end_silent = False
        if clean is None:
            clean = r.random() >= k.get("p_abort", 0.15)
        if clean:
            self.emit(op="print_done", hook_first=(r.random() < k.get("p_hook_first", 0.5)),
                      repeat_hook=(r.choice([0, 0, 1, 2]) if k.get("hook_repeats") else 0),
                      deliver_before_pump=(r.random() < 0.5))
        else:
            kinds = ["cancel", "cancel", "error", "fail", "error_only"]
            if k.get("silent_abort"):
                kinds += ["silent", "silent"]
            kind_ = r.choice(kinds)
            self.emit(op="abort", kind=kind_)
            self.last_end_silent = (kind_ == "silent")
        self.active = False
        self.ep = False
        if k.get("clear_after") and not self.last_end_silent:
            self.regions = {}
        if k.get("hook_after_end"):
            for _ in range(r.randrange(0, 3)):
                self.emit(op="script_hook", type="gcode",
                          name=r.choice(["afterPrintDone", "afterPrintDone", "afterPrintCancelled"]))


BASE_W = {"move": 55, "arc": 0, "retract": 10, "region_add": 3, "region_grow": 1.5, "region_shrink": 1,
          "region_refused": 1, "other": 8, "at_noop": 1.5, "terminal": 2, "pump": 1, "clock": 1, "logfail": 0.5,
          "pause": 0.7, "api_get": 0.5, "settings_same": 0.5, "g92e": 2, "mode": 0, "units": 0, "g92xyz": 0,
          "at_switch": 0, "sd_stream_at": 0, "settings_change": 0, "script_hook": 0, "at_config": 0, "rehome": 0, "upload": 0,
          "prime": 0}


MERGE_CODES = ["M204", "M205", "M73", "M900", "M220", "M221"]
TEXT_CODES = ["M117", "M118", "G4", "M300", "M106", "M107", "M150"]
MERGE_LETTERS = "PTSXYZRKJ"


def rand_deferral_config(rng):
    """2-6 configured codes: numeric-parameter codes for merge, string/any codes for exclude/first/last."""
    out = []
    for code in rng.sample(MERGE_CODES, rng.randrange(1, 4)):
        out.append({"gcode": code, "mode": rng.choice(["merge", "merge", "first", "last", "exclude"]),
                    "description": "sim"})
    for code in rng.sample(TEXT_CODES, rng.randrange(1, 4)):
        out.append({"gcode": code, "mode": rng.choice(["exclude", "first", "last"]), "description": "sim"})
    rng.shuffle(out)
    return out


def rand_code_line(rng, code):
    if code in MERGE_CODES:
        if rng.random() < 0.07:
            return code          # a bare code: deferred with an empty argument set, still owed at the exit
        letters = rng.sample(MERGE_LETTERS, rng.randrange(1, 4))
        return code + "".join(" %s%s" % (l, rng.choice([str(rng.randrange(0, 2000)), "0", "0.0",
                                                        "%.2f" % rng.uniform(0, 50), "%.2f" % rng.uniform(0, 50),
                                                        rng.choice(["0.00005", "0.00002", "0.000001"])]))
                              for l in letters)
    if code in ("M117", "M118"):
        return "%s msg %d of %d" % (code, rng.randrange(100), rng.randrange(100))
    if code == "G4":
        return "G4 %s%d" % (rng.choice("PS"), rng.randrange(0, 500))
    return "%s S%d" % (code, rng.randrange(0, 255))


def rand_script(rng, tag):
    """Multi-line script setting with comments, blank lines and a non-action @-command."""
    if rng.random() < 0.25:
        return None
    lines = []
    for i in range(rng.randrange(1, 4)):
        kind = rng.random()
        if kind < 0.5:
            body = "M117 %s %d" % (tag, i)
        elif kind < 0.8:
            # codes that occur nowhere else (neither in programs nor among the configured codes), so that a
            # script line on the wire can never be mistaken for a deferred command of the program
            body = "M950 K0.%d%d" % (i, rng.randrange(1, 9)) if tag == "ENTER" else "M951 Q%d.%d" % (i, rng.randrange(1, 9))
        else:
            body = "@verifnoop %s%d" % (tag.lower(), i)
        if rng.random() < 0.3:
            body = "  " + body
        if rng.random() < 0.3:
            body += " ; comment %d" % i
        lines.append(body)
        if rng.random() < 0.3:
            lines.append(rng.choice(["", "   ", "; only a comment"]))
    return rng.choice(["\n", "\n", "\r\n"]).join(lines) + rng.choice(["", "\n"])


CUSTOM_AT = [
    {"command": "Excl", "parameterPattern": "^stop$", "action": "disable_exclusion", "description": "sim"},
    {"command": "Excl", "parameterPattern": "^go", "action": "enable_exclusion", "description": "sim"},
    {"command": "RegionsOff", "parameterPattern": None, "action": "disable_exclusion", "description": "sim"},
    {"command": "RegionsOn", "parameterPattern": "", "action": "enable_exclusion", "description": "sim"},
    {"command": "Excl2", "parameterPattern": "off", "action": "disable_exclusion", "description": "sim"},
    {"command": "Excl2", "parameterPattern": "on", "action": "enable_exclusion", "description": "sim"},
]
# the same command configured in runs that are not adjacent (a lower-case alias sorts in between), and two
# entries that both match one line
INTERLEAVED_AT = [
    {"command": "ExcludeRegion", "parameterPattern": "^\\s*(enable|on)(\\s|$)", "action": "enable_exclusion",
     "description": "d"},
    {"command": "ExcludeRegion", "parameterPattern": "^\\s*(disable|off)(\\s|$)", "action": "disable_exclusion",
     "description": "d"},
    {"command": "excluderegion", "parameterPattern": "^x", "action": "enable_exclusion", "description": "alias"},
    {"command": "ExcludeRegion", "parameterPattern": "off", "action": "disable_exclusion", "description": "alias 2"},
    {"command": "ExcludeRegion", "parameterPattern": "^\\s*resume", "action": "enable_exclusion", "description": "3"},
]


def knobs(rng, profile):
    """Per-run swarm knobs for a profile."""
    w = dict(BASE_W)
    k = {"w": w, "profile": profile}
    k["log"] = rng.choice(["off", "off", "info", "debug"])
    k["g90e"] = rng.random() < 0.3
    k["keep_zeros"] = rng.random() < 0.3
    k["numstyle"] = rng.choice([None, None, None, "noleadzero", "plus", "traildot", "mixed"])
    k["compact"] = rng.random() < 0.12
    k["prints"] = rng.choice([1, 1, 2, 3])
    k["nregions"] = rng.choice([0, 1, 1, 2, 3])
    k["retract"] = rng.choice(["e", "e", "fw", None])
    k["may_shrink"] = rng.random() < 0.3
    k["p_abort"] = 0.15
    k["nops"] = rng.choice([8, 15, 30, 60, 120])
    if rng.random() < 0.4:
        w["arc"] = rng.choice([3, 8, 15])
    if rng.random() < 0.3:
        w["mode"] = 2
    if rng.random() < 0.25:
        w["units"] = 1.5
    if rng.random() < 0.12:
        w["upload"] = 2          # benign concurrent traffic: a file is filtered offline while the job runs
    if rng.random() < 0.3:
        w["prime"] = rng.choice([1, 3])
    if rng.random() < 0.25:
        k["p_e_same"] = rng.choice([0.2, 0.6])
    for key in ("other", "terminal", "clock", "logfail", "pause", "region_add", "region_grow"):
        if rng.random() < 0.25:
            w[key] = 0
    return k


def gen_print_schedule(rng, profile, k=None, return_gen=False, regions=None, nid=0):
    """-> (cfg, schedule) for the PRINT world."""
    k = k or knobs(rng, profile)
    if k.get("c02_mode") == "disabled":
        k["clear_path"] = False
        k["disable_at_start"] = True
    g = G(rng, k)
    if regions:
        g.regions = dict(regions)
    g.nid = nid
    g.may_shrink = k["may_shrink"]
    g.fw = (k["retract"] == "fw")
    g.rlen = rng.choice([0.5, 0.8, 1.0, 2.5, 6.0])
    if k["retract"] is None:
        k["w"]["retract"] = 0
    settings = dict(k.get("settings") or {})
    if k["may_shrink"]:
        settings["mayShrinkRegionsWhilePrinting"] = True
    cfg = {"log": k["log"], "g90e": k["g90e"], "keep_zeros": k["keep_zeros"], "settings": settings,
           "profile": profile, "numstyle": k["numstyle"], "compact": k["compact"]}
    dirty = bool(k.get("dirty_first")) and k["prints"] >= 2
    if dirty:
        g.emit(op="c02_judge", on=False)
    for pi in range(k["prints"]):
        if dirty:
            last = (pi == k["prints"] - 1)
            k["clear_path"] = last
            if last:
                if getattr(g, "last_end_silent", False) and not g.may_shrink:
                    # regions could not be deleted while the plugin still believes a job is active: make sure it
                    # knows the earlier job is over (with shrinking allowed the restart stays without end event)
                    g.emit(op="abort", kind="cancel")
                    g.last_end_silent = False
                    if k.get("clear_after"):
                        g.regions = {}
                # the judged job: drop what the earlier, unjudged jobs left of the regions it cannot avoid
                for rid in sorted(g.regions):
                    if rng.random() < 0.5:
                        g.emit(op="api", cmd="deleteExcludeRegion", data={"id": rid})
                        del g.regions[rid]
                g.emit(op="c02_judge", on=True)
        if pi == 0 or rng.random() < 0.3:
            for _ in range(k["nregions"] if pi == 0 else rng.choice([0, 1])):
                g.region_add() if not k.get("clear_path") else g.region_add_clear()
        g.prologue()
        g.body(k["nops"])
        g.end_print()
        if k.get("between_settings") and rng.random() < k["between_settings"]:
            g.settings_change()      # settings saved while idle, between two jobs
    if return_gen:
        return cfg, g.ops, g
    return cfg, g.ops
