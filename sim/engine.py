"""Engine: seeds, batches on a process pool, digests, replay files, minimisation, evidence, exit codes.

One integer decides everything: run i of a batch for property P uses seed = H(VERIF_SEED, P, i); the
generator is the only consumer of the PRNG.  Executing a schedule is a pure function of (cfg, schedule, code).
"""
from __future__ import annotations

import hashlib
import json
import os
import random
import sys
import time
import traceback
import faulthandler
from collections import Counter
from concurrent.futures import ProcessPoolExecutor, as_completed
import multiprocessing

VERIF = os.path.dirname(os.path.dirname(os.path.abspath(__file__)))
REPLAYS = os.environ.get("VERIF_REPLAYS") or os.path.join(VERIF, "replays")   # override: parallel sweeps
EVIDENCE = os.path.join(VERIF, "evidence")
KNOWN = os.path.join(VERIF, "known_findings.json")


def derive_seed(master, prop, i):
    h = hashlib.sha256(("%d/%s/%d" % (master, prop, i)).encode()).digest()
    return int.from_bytes(h[:6], "big")


class RunResult(object):
    __slots__ = ("seed", "violation", "digest", "stats", "abs_states", "nops", "ncalls", "sim_time",
                 "sample", "error", "cfg", "schedule", "interleaving")

    def __init__(self):
        self.violation = None
        self.error = None
        self.sample = None
        self.cfg = None
        self.schedule = None
        self.interleaving = None


# ------------------------------------------------------------------------------------------------------
# A "check" object describes one property: how to generate a case from a seed and how to execute it.
#   check.generate(rng) -> (cfg, schedule)
#   check.execute(cfg, schedule) -> dict(violation=None|{...}, digest=str, stats=Counter, abs_states=set,
#                                        ncalls=int, sim_time=float)
# ------------------------------------------------------------------------------------------------------
_CHECKS = {}


def register(check):
    _CHECKS[check.prop] = check
    return check


def get_check(prop):
    from . import checks  # noqa: F401  (registers everything)
    return _CHECKS[prop]


def run_one(prop, seed, keep_case=False):
    check = get_check(prop)
    res = RunResult()
    res.seed = seed
    rng = random.Random(seed)
    try:
        cfg, schedule = check.generate(rng)
        out = check.execute(cfg, schedule)
    except BaseException as ex:  # harness problem, never a violation
        res.error = "%s: %s\n%s" % (type(ex).__name__, ex, traceback.format_exc())
        return res
    res.violation = out["violation"]
    res.digest = out["digest"]
    res.stats = out["stats"]
    res.abs_states = out["abs_states"]
    res.nops = len(schedule)
    res.ncalls = out.get("ncalls", 0)
    res.sim_time = out.get("sim_time", 0.0)
    res.interleaving = out.get("interleaving")
    if keep_case or res.violation is not None:
        res.cfg, res.schedule = cfg, schedule
    return res


def _worker(args):
    prop, seeds, sample_every = args
    faulthandler.dump_traceback_later(600, exit=True)
    out = {"n": 0, "stats": Counter(), "abs": set(), "viol": [], "errors": [], "digests": [], "samples": [],
           "nops": 0, "ncalls": 0, "sim_time": 0.0, "inter": set()}
    for j, seed in enumerate(seeds):
        r = run_one(prop, seed, keep_case=(j % sample_every == 0))
        out["n"] += 1
        if r.error is not None:
            out["errors"].append((seed, r.error))
            continue
        out["stats"].update(r.stats)
        out["abs"] |= r.abs_states
        out["nops"] += r.nops
        out["ncalls"] += r.ncalls
        out["sim_time"] += r.sim_time
        if r.interleaving is not None:
            out["inter"].add(r.interleaving)
        if j % sample_every == 0:
            out["digests"].append((seed, r.digest))
            if len(out["samples"]) < 2 and r.schedule is not None:
                out["samples"].append({"seed": seed, "digest": r.digest, "cfg": r.cfg,
                                       "schedule_head": r.schedule[:12], "schedule_len": len(r.schedule)})
        if r.violation is not None:
            out["viol"].append((seed, r.violation))
    faulthandler.cancel_dump_traceback_later()
    return out


def chunks(lst, n):
    for i in range(0, len(lst), n):
        yield lst[i:i + n]


def run_batch(prop, master, nruns, workers=None, chunk=None, wall_cap=None):
    workers = workers or min(16, os.cpu_count() or 1)
    seeds = [derive_seed(master, prop, i) for i in range(nruns)]
    chunk = chunk or max(1, min(500, nruns // (workers * 4) or 1))
    tasks = [(prop, c, 25) for c in chunks(seeds, chunk)]
    agg = {"n": 0, "stats": Counter(), "abs": set(), "viol": [], "errors": [], "digests": [], "samples": [],
           "nops": 0, "ncalls": 0, "sim_time": 0.0, "inter": set(), "truncated": False}
    t0 = time.time()
    ctx = multiprocessing.get_context("fork")
    if workers == 1:
        results = (_worker(t) for t in tasks)
        for out in results:
            _merge(agg, out)
            if wall_cap and time.time() - t0 > wall_cap:
                agg["truncated"] = True
                break
    else:
        with ProcessPoolExecutor(max_workers=workers, mp_context=ctx) as ex:
            futs = [ex.submit(_worker, t) for t in tasks]
            try:
                for f in as_completed(futs, timeout=wall_cap):
                    _merge(agg, f.result())
            except Exception as e:  # timeout or dead worker: harness problem
                agg["truncated"] = True
                agg["errors"].append((-1, "batch: %s: %s" % (type(e).__name__, e)))
                for f in futs:
                    f.cancel()
    agg["wall"] = time.time() - t0
    return agg


def _merge(agg, out):
    agg["n"] += out["n"]
    agg["stats"].update(out["stats"])
    agg["abs"] |= out["abs"]
    agg["viol"].extend(out["viol"])
    agg["errors"].extend(out["errors"])
    agg["digests"].extend(out["digests"])
    agg["nops"] += out["nops"]
    agg["ncalls"] += out["ncalls"]
    agg["sim_time"] += out["sim_time"]
    agg["inter"] |= out["inter"]
    if len(agg["samples"]) < 3:
        agg["samples"].extend(out["samples"][: 3 - len(agg["samples"])])


# ------------------------------------------------------------------------------------------------------
# Minimisation: ddmin over link groups, then per-op simplification; the *same clause* must keep failing.
# ------------------------------------------------------------------------------------------------------
def _groups(schedule):
    groups = []
    by_grp = {}
    for i, op in enumerate(schedule):
        g = op.get("grp")
        if g is None:
            groups.append([i])
        elif g in by_grp:
            by_grp[g].append(i)
        else:
            by_grp[g] = [i]
            groups.append(by_grp[g])
    return groups


def minimise(check, cfg, schedule, clause, budget=400):
    def fails(c, s):
        try:
            out = check.execute(c, s)
        except BaseException:
            return False
        v = out["violation"]
        return v is not None and v["clause"] == clause

    tests = [0]

    def test(c, s):
        tests[0] += 1
        return fails(c, s)

    # cut everything after the failing op first
    out = check.execute(cfg, schedule)
    if out["violation"] is not None and out["violation"].get("op") is not None:
        cut = schedule[: out["violation"]["op"] + 1]
        if test(cfg, cut):
            schedule = cut
    groups = _groups(schedule)
    n = 2
    while len(groups) >= 2 and tests[0] < budget:
        size = max(1, len(groups) // n)
        removed = False
        for start in range(0, len(groups), size):
            keep = groups[:start] + groups[start + size:]
            idx = sorted(i for g in keep for i in g)
            cand = [schedule[i] for i in idx]
            if test(cfg, cand):
                schedule = cand
                groups = _groups(schedule)
                n = max(n - 1, 2)
                removed = True
                break
            if tests[0] >= budget:
                break
        if not removed:
            if size == 1:
                break
            n = min(len(groups), n * 2)
    # per-op / per-config simplification
    simple_cfg = dict(cfg)
    for key, val in (("log", "off"), ("keep_zeros", False), ("numstyle", None), ("compact", False)):
        if simple_cfg.get(key) != val:
            c2 = dict(simple_cfg)
            c2[key] = val
            if test(c2, schedule):
                simple_cfg = c2
    for i in range(len(schedule)):
        op = schedule[i]
        for key in ("f", "z", "de"):
            if key in op and op["op"] in ("move", "arc") and tests[0] < budget * 2:
                o2 = dict(op)
                del o2[key]
                cand = schedule[:i] + [o2] + schedule[i + 1:]
                if test(simple_cfg, cand):
                    schedule = cand
                    op = o2
    return simple_cfg, schedule, tests[0]


# ------------------------------------------------------------------------------------------------------
# Known findings
# ------------------------------------------------------------------------------------------------------
def load_known():
    if not os.path.exists(KNOWN):
        return {"findings": [], "fixed": []}
    with open(KNOWN) as f:
        return json.load(f)


def match_known(prop, violation, cfg, schedule):
    """A violation is a known finding iff some listed entry for this property matches its clause and its
    signature predicate (substring of the message and/or required op kinds in the minimised schedule)."""
    for e in load_known().get("findings", []):
        clauses = e["clause"] if isinstance(e["clause"], list) else [e["clause"]]
        if e["property"] != prop or violation["clause"] not in clauses:
            continue
        sig = e.get("signature", {})
        if "message_contains" in sig and not all(s in violation["message"] for s in sig["message_contains"]):
            continue
        if "message_regex" in sig:
            import re
            if not re.search(sig["message_regex"], violation["message"]):
                continue
        if "needs_ops" in sig:
            kinds = set(op["op"] for op in schedule)
            if not all(o in kinds for o in sig["needs_ops"]):
                continue
        if "cfg" in sig and any(cfg.get(k) != v for k, v in sig["cfg"].items()):
            continue
        return e
    return None


# ------------------------------------------------------------------------------------------------------
# Replay files
# ------------------------------------------------------------------------------------------------------
def write_replay(prop, seed, cfg, schedule, violation, digest, original_len, tests):
    os.makedirs(REPLAYS, exist_ok=True)
    path = os.path.join(REPLAYS, "%s-%d.json" % (prop, seed))
    with open(path, "w") as f:
        json.dump({"property": prop, "seed": seed, "cfg": cfg, "schedule": schedule, "violation": violation,
                   "digest": digest, "original_schedule_len": original_len, "minimiser_tests": tests},
                  f, indent=1, sort_keys=True)
    return path


def replay(path):
    with open(path) as f:
        rp = json.load(f)
    check = get_check(rp["property"])
    out = check.execute(rp["cfg"], rp["schedule"])
    v = out["violation"]
    same = (v is not None and rp["violation"] is not None and v["clause"] == rp["violation"]["clause"]
            and v.get("op") == rp["violation"].get("op") and out["digest"] == rp["digest"])
    return rp, out, same
