"""Self-tests of the machinery (not property checks):

  bin/check selftest-determinism [--runs N]
      N seeds per property executed (a) sequentially in this process, (b) on a 16-worker fork pool in shuffled
      order, (c) in fresh interpreters with PYTHONHASHSEED=1 and =random in reverse order.  All digests must agree.

  bin/check selftest-sensitivity
      the catalogue of small semantic mutations in sim/mutants/*.patch, each applied to a scratch worktree of
      /repo's HEAD (outside /repo and /verif, removed afterwards): the pinned suite must still pass and the
      owning check must report a violation within a small budget.
"""
from __future__ import annotations

import glob
import json
import multiprocessing
import os
import random
import subprocess
import sys
import tempfile
from concurrent.futures import ProcessPoolExecutor

from . import engine

PROPS = ["C01", "C02", "C03", "C04", "C05", "C06", "C07", "C08", "C09", "C10", "C11", "C12", "C13", "C14", "C15",
         "C20"]


def _digest(args):
    prop, seed = args
    r = engine.run_one(prop, seed)
    return (prop, seed, r.digest if r.error is None else "ERR:" + r.error.splitlines()[0])


def determinism(master, n):
    bad = 0
    total = 0
    for prop in PROPS:
        seeds = [engine.derive_seed(master, prop, 20_000_000 + i) for i in range(n)]
        a = {s: _digest((prop, s))[2] for s in seeds}
        shuffled = list(seeds)
        random.Random(master).shuffle(shuffled)
        ctx = multiprocessing.get_context("fork")
        with ProcessPoolExecutor(max_workers=16, mp_context=ctx) as ex:
            b = {s: d for (_p, s, d) in ex.map(_digest, [(prop, s) for s in shuffled], chunksize=7)}
        outs = [("pool16-shuffled", b)]
        for hs in ("1", "random"):
            env = dict(os.environ)
            env["PYTHONHASHSEED"] = hs
            p = subprocess.run([sys.executable, "-m", "sim.cli", prop, "--digests",
                                ",".join(map(str, reversed(seeds)))],
                               cwd=engine.VERIF, env=env, capture_output=True, text=True, timeout=1800)
            try:
                outs.append(("fresh-hashseed-" + hs, {int(k): v for k, v in json.loads(
                    p.stdout.strip().splitlines()[-1]).items()}))
            except Exception:
                outs.append(("fresh-hashseed-" + hs, {}))
        mism = []
        for name, o in outs:
            for s in seeds:
                total += 1
                if o.get(s) != a[s]:
                    mism.append((name, s))
        errs = sum(1 for v in a.values() if v.startswith("ERR:"))
        print("%s: %d seeds x 4 executions, mismatches=%d, harness-errors=%d" % (prop, n, len(mism), errs))
        for m in mism[:3]:
            print("   MISMATCH", m)
        bad += len(mism) + errs
    print("determinism: %d comparisons, %d problems" % (total, bad))
    return 0 if bad == 0 else 2


def sensitivity(master, only=None):
    mdir = os.path.join(engine.VERIF, "sim", "mutants")
    results = []
    for patch in sorted(glob.glob(os.path.join(mdir, "*.patch"))):
        name = os.path.basename(patch)[:-6]
        meta = json.load(open(patch[:-6] + ".json"))
        if only and name not in only:
            continue
        wt = tempfile.mkdtemp(prefix="verif-sens-", dir="/tmp")
        os.rmdir(wt)
        subprocess.run(["git", "-C", "/repo", "worktree", "add", "--detach", wt, "HEAD", "-q"], check=True)
        try:
            ap = subprocess.run(["git", "-C", wt, "apply", "--whitespace=nowarn", patch], capture_output=True, text=True)
            if ap.returncode != 0:
                results.append((name, "PATCH-DOES-NOT-APPLY", ap.stderr.strip()[:200]))
                continue
            env = dict(os.environ, VERIF_REPO=wt)
            b = subprocess.run([os.path.join(engine.VERIF, "bin", "baseline")], env=env, capture_output=True, text=True)
            suite_ok = (b.returncode == 0)
            caught = []
            for prop in meta["expect"]:
                c = subprocess.run([os.path.join(engine.VERIF, "bin", "check"), prop, "--runs",
                                    str(meta.get("runs", 4000)), "--no-evidence", "--seed", str(master)],
                                   env=env, capture_output=True, text=True, timeout=3600)
                clauses = [l.split("clause=")[1].split()[0] for l in c.stdout.splitlines() if "clause=" in l]
                caught.append((prop, c.returncode, clauses))
            results.append((name, "suite-ok" if suite_ok else "SUITE-BROKEN", caught))
        finally:
            subprocess.run(["git", "-C", "/repo", "worktree", "remove", "--force", wt], capture_output=True)
            subprocess.run(["git", "-C", "/repo", "worktree", "prune"], capture_output=True)
    missed = 0
    for name, suite, caught in results:
        if not isinstance(caught, list):
            print("%-40s %s %s" % (name, suite, caught))
            missed += 1
            continue
        ok = all(rc == 1 for (_p, rc, _c) in caught)
        if not ok or suite != "suite-ok":
            missed += 1
        print("%-40s %s %s %s" % (name, suite, "CAUGHT" if ok else "MISSED",
                                  "; ".join("%s exit=%d %s" % (p, rc, ",".join(c)) for p, rc, c in caught)))
    print("sensitivity: %d mutants, %d not caught / problematic" % (len(results), missed))
    return 0 if missed == 0 else 2


def main(prop, master, args):
    if prop == "selftest-determinism":
        return determinism(master, args.runs or 60)
    if prop == "selftest-sensitivity":
        return sensitivity(master)
    print("unknown self-test", prop)
    return 2
