"""Generators for the API world (C12, C13)."""
from __future__ import annotations

import math

from .models import norm_region
from .worlds.apiworld import ref_contains

END = ["PrintDone", "PrintFailed", "PrintCancelling", "PrintCancelled", "Error"]


def r1(v):
    return round(v, 1) + 0.0


def rand_region(rng, rid=None, big=False):
    cx, cy = r1(rng.uniform(20, 180)), r1(rng.uniform(20, 180))
    hi = 60 if big else 25
    if rng.random() < 0.5:
        w, h = r1(rng.uniform(0.5, hi)), r1(rng.uniform(0.5, hi))
        d = {"type": "RectangularRegion", "x1": r1(cx - w), "y1": r1(cy - h), "x2": r1(cx + w), "y2": r1(cy + h)}
        if rng.random() < 0.2:
            d["x1"], d["x2"] = d["x2"], d["x1"]
        if rng.random() < 0.2:
            d["y1"], d["y2"] = d["y2"], d["y1"]
    else:
        d = {"type": "CircularRegion", "cx": cx, "cy": cy, "r": r1(rng.uniform(0.5, hi))}
        if rng.random() < 0.04:
            d["r"] = -d["r"]        # nonsense, but a client can send it: such a circle excludes nothing
    if rid is not None:
        d["id"] = rid
    return d


def perturb(rng, v, direction):
    """v moved by a tiny/small amount in `direction` (+1/-1), or not at all."""
    kind = rng.choice(["0", "ulp", "ulp", "1e-9", "1e-6", "1e-3", "0.5"])
    if kind == "0":
        return v
    if kind == "ulp":
        return math.nextafter(v, math.inf if direction > 0 else -math.inf)
    return v + direction * float(kind)


def related_region(rng, old, newtype):
    """A new geometry in a chosen relation to `old` (normalised dict): containing, touching, nearly
    touching (+-ulp .. +-1e-3), overlapping, nested inside, disjoint, zero-size."""
    rel = rng.choice(["grow", "touch", "near_in", "near_out", "overlap", "inside", "disjoint", "zero", "same"])
    if old["type"] == "RectangularRegion":
        ox1, oy1, ox2, oy2 = old["x1"], old["y1"], old["x2"], old["y2"]
        ocx, ocy = (ox1 + ox2) / 2.0, (oy1 + oy2) / 2.0
        half = math.hypot(ox2 - ox1, oy2 - oy1) / 2.0
    else:
        ocx, ocy, half = old["cx"], old["cy"], old["r"]
        ox1, oy1, ox2, oy2 = ocx - half, ocy - half, ocx + half, ocy + half
    if rel == "zero":
        if newtype == "RectangularRegion":
            return {"type": newtype, "x1": ocx, "y1": ocy, "x2": ocx, "y2": ocy}
        return {"type": newtype, "cx": ocx, "cy": ocy, "r": 0.0}
    if rel == "disjoint":
        d = rand_region(rng)
        d["type"] = newtype
        if newtype == "RectangularRegion":
            return {"type": newtype, "x1": ox2 + 5, "y1": oy2 + 5, "x2": ox2 + 15, "y2": oy2 + 12}
        return {"type": newtype, "cx": ox2 + 30, "cy": oy2 + 30, "r": 4.0}
    if rel == "same" and newtype == old["type"]:
        return {k: v for k, v in old.items() if k != "id"}
    if newtype == "RectangularRegion":
        # bounding box of old, each side pushed out by g >= 0 (touch: some 0), then maybe perturbed
        def side(base, outward):
            g = {"grow": rng.choice([0.5, 2.0, 10.0]), "touch": rng.choice([0.0, 0.0, 1.0]),
                 "near_in": 0.0, "near_out": 0.0, "overlap": -rng.choice([0.5, 3.0]) if rng.random() < 0.5 else 2.0,
                 "inside": -rng.choice([0.1, 1.0]), "same": 0.0}[rel]
            v = base + outward * g
            if rel == "near_in" and rng.random() < 0.5:
                v = perturb(rng, v, -outward)
            if rel == "near_out" and rng.random() < 0.5:
                v = perturb(rng, v, outward)
            return v
        return {"type": newtype, "x1": side(ox1, -1), "y1": side(oy1, -1), "x2": side(ox2, +1), "y2": side(oy2, +1)}
    # new circle
    if old["type"] == "CircularRegion":
        dlen = rng.choice([0.0, 0.0, r1(rng.uniform(0.1, 10))])
        a = rng.choice([0.0, math.pi / 2, rng.uniform(0, 2 * math.pi)])
        cx, cy = ocx + dlen * math.cos(a), ocy + dlen * math.sin(a)
        tangent_r = math.hypot(cx - ocx, cy - ocy) + old["r"]
    else:
        cx, cy = ocx + rng.choice([0.0, r1(rng.uniform(-3, 3))]), ocy + rng.choice([0.0, r1(rng.uniform(-3, 3))])
        tangent_r = max(math.hypot(x - cx, y - cy) for x in (ox1, ox2) for y in (oy1, oy2))
    if rel == "grow":
        r = tangent_r + rng.choice([0.5, 2.0, 10.0])
    elif rel in ("touch", "same"):
        r = tangent_r
    elif rel == "near_in":
        r = perturb(rng, tangent_r, -1)
    elif rel == "near_out":
        r = perturb(rng, tangent_r, +1)
    elif rel == "overlap":
        r = max(0.1, tangent_r - rng.choice([0.5, 3.0]))
    else:
        r = max(0.0, half * rng.choice([0.2, 0.5, 0.9]))
    return {"type": newtype, "cx": cx, "cy": cy, "r": r}


class ApiGen(object):
    def __init__(self, rng, prop):
        self.r = rng
        self.prop = prop
        self.ops = []
        self.regs = []       # generator's idea of the list (normalised dicts)
        self.active = False
        self.may_shrink = False
        self.clear_after = False
        self.nid = 0

    def ids(self):
        return [x["id"] for x in self.regs]

    def emit(self, **op):
        self.ops.append(op)

    def restricted(self):
        return self.active and not self.may_shrink

    def req(self, kind=None):
        r = self.r
        kinds = ["add", "add", "upd", "upd", "upd", "del", "dup", "unknown", "badtype", "anon", "badvalue",
                 "del_unknown", "add_auto"]
        if self.prop == "C12":
            kinds = ["add", "upd", "upd", "upd", "upd", "upd", "del", "anon", "dup", "unknown"]
        kind = kind or r.choice(kinds)
        have = bool(self.regs)
        if kind in ("upd", "del", "dup") and not have:
            kind = "add"
        if kind == "add":
            self.nid += 1
            rid = "r%d" % self.nid
            if r.random() < 0.08:
                rid = r.choice([0, "", False, 0.0, "0"])     # explicit but falsy ids are ids too
                if any(x["id"] == rid for x in self.regs):
                    kind = "dup"
            d = rand_region(r, rid, big=(self.prop == "C12" and r.random() < 0.3))
            if kind == "dup":
                self.emit(op="api", cmd="addExcludeRegion", data=d, kind=kind)
                return
            self.emit(op="api", cmd="addExcludeRegion", data=d, kind=kind)
            self.regs.append(norm_region(d))
        elif kind == "add_auto":
            self.nid += 1
            d = rand_region(r)
            auto = 5000 + self.nid
            self.emit(op="api", cmd="addExcludeRegion", data=d, kind=kind, auto_id=auto)
            self.regs.append(norm_region(dict(d, id="auto-%06d" % (auto + 1))))
        elif kind == "dup":
            d = rand_region(r, r.choice(self.ids()))
            self.emit(op="api", cmd="addExcludeRegion", data=d, kind=kind)
        elif kind == "unknown":
            self.emit(op="api", cmd="updateExcludeRegion", data=rand_region(r, "nope%d" % r.randrange(3)), kind=kind)
        elif kind == "del_unknown":
            self.emit(op="api", cmd="deleteExcludeRegion", data={"id": "nope%d" % r.randrange(3)}, kind=kind)
        elif kind == "badtype":
            cmd = r.choice(["addExcludeRegion", "updateExcludeRegion"])
            d = rand_region(r, r.choice(self.ids()) if have and r.random() < 0.5 else "zz")
            d["type"] = r.choice(["Triangle", "rectangularregion", "", None, 7])
            self.emit(op="api", cmd=cmd, data=d, kind=kind)
        elif kind == "badvalue":
            d = rand_region(r, r.choice(self.ids()) if have and r.random() < 0.5 else "bv")
            key = r.choice([k for k in d if k not in ("type", "id")])
            d[key] = r.choice(["abc", None, [1], {}])
            self.emit(op="api", cmd=r.choice(["addExcludeRegion", "updateExcludeRegion"]), data=d, kind=kind)
        elif kind == "anon":
            which = r.choice(["add", "upd", "del"]) if have else "add"
            if which == "add":
                self.emit(op="api", cmd="addExcludeRegion", data=rand_region(r, "anon%d" % r.randrange(9)),
                          anon=True, kind=kind)
            elif which == "upd":
                self.emit(op="api", cmd="updateExcludeRegion", data=rand_region(r, r.choice(self.ids()), big=True),
                          anon=True, kind=kind)
            else:
                self.emit(op="api", cmd="deleteExcludeRegion", data={"id": r.choice(self.ids())}, anon=True, kind=kind)
        elif kind == "del":
            rid = r.choice(self.ids())
            self.emit(op="api", cmd="deleteExcludeRegion", data={"id": rid}, kind=kind)
            if not self.restricted():
                self.regs = [x for x in self.regs if x["id"] != rid]
        elif kind == "upd":
            i = r.randrange(len(self.regs))
            old = self.regs[i]
            newtype = r.choice(["RectangularRegion", "CircularRegion"])
            if self.prop == "C13":
                d = self.clear_update(old, newtype)
            else:
                d = related_region(r, old, newtype)
            d["id"] = old["id"]
            if self.prop == "C12" and self.restricted() and r.random() < 0.04:
                # not-a-number coordinates (the JSON literal NaN, or the string "nan", both pass float()): such a
                # region contains nothing, so it never covers the old one
                keys = [k_ for k_ in d if k_ not in ("id", "type")]
                for k_ in r.sample(keys, r.randrange(1, len(keys) + 1)):
                    d[k_] = r.choice([float("nan"), "nan", "NaN"])
                self.emit(op="api", cmd="updateExcludeRegion", data=d, kind="upd_nan")
                return
            self.emit(op="api", cmd="updateExcludeRegion", data=d, kind=kind)
            nd = norm_region(d)
            if not self.restricted() or ref_contains(nd, old):
                self.regs[i] = nd

    def clear_update(self, old, newtype):
        """C13: geometry that clearly contains the old region or clearly does not (margin >= 0.4)."""
        r = self.r
        for _ in range(50):
            d = related_region(r, old, newtype)
            rel_ok = True
            nd = norm_region(dict(d, id=old["id"]))
            # margin test: decision must be the same when the new region is shrunk / grown by 0.4
            def scaled(delta):
                if nd["type"] == "RectangularRegion":
                    return dict(nd, x1=nd["x1"] - delta, y1=nd["y1"] - delta, x2=nd["x2"] + delta, y2=nd["y2"] + delta)
                return dict(nd, r=nd["r"] + delta)
            a, b = scaled(-0.4), scaled(0.4)
            if nd["type"] == "RectangularRegion" and (a["x1"] > a["x2"] or a["y1"] > a["y2"]):
                rel_ok = ref_contains(b, old) is False
            elif ref_contains(a, old) != ref_contains(b, old):
                rel_ok = False
            if rel_ok:
                return d
        return rand_region(r, big=True) if newtype is None else dict(rand_region(r, big=True))

    def event(self, name=None):
        r = self.r
        name = name or r.choice(["PrintStarted", "PrintStarted"] + END + ["FileSelected", "PrintPaused",
                                 "PrintResumed", "Connected", "Upload"])
        op = {"op": "event", "name": name}
        if name.startswith("Print") and r.random() < 0.5:
            # payloads as OctoPrint sends them; an SD-card job is a job too
            op["payload"] = {"name": "a.gcode", "path": "a.gcode", "origin": r.choice(["local", "sdcard"]),
                             "size": 1234, "owner": "u", "user": "u"}
        self.ops.append(op)
        if name == "PrintStarted":
            self.active = True
        elif name in END:
            self.active = False
            if self.clear_after:
                self.regs = []
        elif name == "FileSelected":
            self.regs = []

    def job_traffic(self):
        """G-code / @-commands of the running job between two requests."""
        r = self.r
        for _ in range(r.randrange(1, 4)):
            if r.random() < 0.25:
                self.emit(op="at", cmd="ExcludeRegion", params=r.choice(["disable", "enable", "off", "on", "x"]))
            else:
                if self.regs and r.random() < 0.6:
                    reg = r.choice(self.regs)
                    if reg["type"] == "RectangularRegion":
                        x, y = (reg["x1"] + reg["x2"]) / 2.0, (reg["y1"] + reg["y2"]) / 2.0
                    else:
                        x, y = reg["cx"], reg["cy"]
                    t = "G1 X%.3f Y%.3f" % (x, y)
                else:
                    t = r.choice(["G28", "G1 X%.1f Y%.1f" % (r.uniform(0, 200), r.uniform(0, 200)), "G1 Z0.3",
                                  "G1 E-1 F1800", "G1 E1", "M117 x", "G91", "G90"])
                self.emit(op="gcode", text=t)

    def settings(self):
        r = self.r
        if r.random() < 0.2:
            # a settings update that carries an entry the plugin cannot digest (a pattern that is not a regular
            # expression) together with new values for the two flags
            st = {"atCommandActions": [{"command": "ExcludeRegion", "parameterPattern": "(unclosed",
                                        "action": "disable_exclusion", "description": "bad"}]}
            self.may_shrink = r.random() < 0.5
            st["mayShrinkRegionsWhilePrinting"] = self.may_shrink
            self.clear_after = r.random() < 0.5
            st["clearRegionsAfterPrintFinishes"] = self.clear_after
            self.emit(op="settings", set=st, invalid=True)
            return
        st = {}

        def flag():
            """A stored flag value as the settings API or a hand-edited config.yaml may hold it."""
            val = r.random() < 0.5
            if r.random() < 0.25:
                return val, r.choice(["true", "yes", "1", "on", 1] if val else ["false", "no", "0", "off", 0])
            return val, val
        if r.random() < 0.6:
            self.may_shrink, st["mayShrinkRegionsWhilePrinting"] = flag()
        if r.random() < 0.5:
            self.clear_after, st["clearRegionsAfterPrintFinishes"] = flag()
        self.emit(op="settings", set=st)


def gen_api(rng, prop):
    g = ApiGen(rng, prop)
    cfg = {"log": rng.choice(["off", "off", "info", "debug"]), "settings": {}, "profile": prop}
    n = rng.choice([5, 10, 20, 30])
    if prop == "C12":
        for _ in range(rng.randrange(1, 4)):
            g.req("add")
        g.event("PrintStarted")
        g.emit(op="gcode", text="G28")
        w = [("req", 80), ("event", 4), ("settings", 4), ("get", 2), ("restart", 5), ("job", 6)]
    else:
        if rng.random() < 0.3:
            cfg["settings"]["clearRegionsAfterPrintFinishes"] = True
            g.clear_after = True
        if rng.random() < 0.3:
            cfg["settings"]["mayShrinkRegionsWhilePrinting"] = True
            g.may_shrink = True
        w = [("req", 66), ("event", 15), ("settings", 5), ("get", 8), ("job", 6)]
    kinds = [k for k, _ in w]
    weights = [x for _, x in w]
    for _ in range(n):
        k = rng.choices(kinds, weights)[0]
        if k == "req":
            g.req()
        elif k == "event":
            g.event()
        elif k == "settings":
            g.settings()
        elif k == "get":
            g.emit(op="api_get")
        elif k == "job":
            g.job_traffic()
        elif k == "restart":
            g.event(rng.choice(END))
            if rng.random() < 0.5:
                g.req()
            g.event("PrintStarted")
    return cfg, g.ops
